"""C19 - all filesystem backends resolve names alike; chains honour priority (DESIGN.md C19).

  H1  normal-form agreement per backend: in VirtualFileSystem, ZipFileSystem and VPKFileSystem the form of the index keys at
      construction (casefolded, forward slashes) equals the form of every lookup key (_get_file, _file_exists, open_bin,
      open_str), and in walk_folder both operands of the folder test have that same form.
  H2  the folder test is a folder test: the prefix operand ends in a separator or is empty (or whole components are
      compared); the empty folder lists everything, so the normaliser applied to '' must not leave '.'.
  H3  listed names are lookup-able: the path a backend puts into the File it yields is the stored name (or its key), a
      value H1 says the lookup accepts.
  H4  chain: _get_file iterates self.systems in list order and returns the first hit; add_sys(priority=True) inserts at 0,
      otherwise appends; the prefix is joined on lookup/walk and stripped (relpath) on walk; walk_folder de-duplicates on
      the casefolded relative path.
"""
from __future__ import annotations

import ast
from typing import FrozenSet, Any, Dict, List, Optional, Set

from engine.srcmatch import U
from engine.forms import FOLDED, SEP_TERMINATED, SLASHED, FormEnv
from engine.model import AnalysisError, Program, dotted, walk_no_nested

LEVEL = 'other'

BACKENDS = {'VirtualFileSystem': '_mapping', 'ZipFileSystem': '_name_to_info', 'VPKFileSystem': '_name_to_file'}
# zip archives store member names with forward slashes only (zipfile normalises them): ZipInfo.filename is SLASHED by definition
ATTR_FORMS: dict = {}      # per index comprehension: `<var>.filename` is SLASHED when <var> iterates ZipFile.infolist() (zip member names use forward slashes)


def _anc19(mod: Any, n: ast.AST, stop: Any) -> List[ast.AST]:
    out = []
    p = mod.parents.get(n)
    while p is not None and p is not stop:
        out.append(p)
        p = mod.parents.get(p)
    return out


def run(ctx: Any, prog: Program) -> None:
    fs = prog.module('filesys')
    ctx.not_decided += ['byte equality across backends', 'RawFileSystem case behaviour (depends on the operating system)', 'VPK.filenames()/fileinfos() folder filters (VPK API, not the filesystem layer)']
    ctx.rule('C19.H1', 'index keys and lookup keys of each backend have the same normal form (casefolded, forward slashes)', floor=18)
    ctx.rule('C19.H2', 'walk_folder matches whole folder names (separator-terminated or empty prefix) on normalised operands', floor=6)
    ctx.rule('C19.H3', 'names listed by walk_folder are accepted by the lookup of the same backend', floor=3)
    ctx.rule('C19.H4', 'FileSystemChain: first hit wins in list order, priority inserts at the front, prefixes joined and stripped, de-duplicated walk', floor=6)
    # per-object state that methods change in place must not be a class-level container shared by every instance (see engine.model)
    from engine.model import shared_mutable_class_attrs as _smca
    for _m in (fs,):
        _hits = _smca(_m.tree, [c.name for c in _m.tree.body if isinstance(c, ast.ClassDef)])
        for _cn, _attr, _st in _hits:
            ctx.check('C19.H4', False, _m, _st, f'{_cn}.{_attr} is a class-level container (`{U(_st.value)[:30]}`) that methods change in place and no __init__ assigns: all {_cn} objects share it, so the members or indexes of one filesystem show up in another',
                      func=_cn, text=f'{_cn}.{_attr} is per-object state')
        ctx.check('C19.H4', True, _m, _m.tree, f'{len(_hits)} shared class-level containers in {_m.relpath}', func='<module>', text=f'{_m.relpath}: class-level containers examined')

    call_forms = {'_clean_path': frozenset({FOLDED, SLASHED, 'CLEAN'})}
    # module-level helpers that normalise a name (`def _archive_name(name): return name.replace(..).casefold()`): the form of what they return,
    # and the characters they trim off (strip-like calls change the *content*, not just the form)
    helper_trims: Dict[str, List[ast.Call]] = {}

    def trims_in(e: ast.AST) -> List[ast.Call]:
        out_ = []
        for c_ in ast.walk(e):
            if isinstance(c_, ast.Call) and isinstance(c_.func, ast.Attribute) and c_.func.attr in ('lstrip', 'strip', 'removeprefix') and c_.args and isinstance(c_.args[0], ast.Constant) and isinstance(c_.args[0].value, str) \
                    and set(c_.args[0].value) - set('/\\'):
                out_.append(c_)
            if isinstance(c_, ast.Call) and isinstance(c_.func, ast.Name) and c_.func.id in helper_trims:
                out_ += helper_trims[c_.func.id]
        return out_
    for hq, hfl in fs.all_funcs().items():
        if '.' in hq or len(hfl) != 1 or len(hfl[0].args.args) != 1:
            continue
        hrets = [r for r in walk_no_nested(hfl[0]) if isinstance(r, ast.Return) and r.value is not None]
        if not hrets:
            continue
        hforms = [FormEnv(hfl[0], call_forms=call_forms).form(r.value) for r in hrets]
        hf = set(hforms[0])
        for x in hforms[1:]:
            hf &= x
        if hf and hq not in call_forms:
            call_forms[hq] = frozenset(hf)
        helper_trims[hq] = [c_ for r in hrets for c_ in trims_in(r.value)] + [c_ for a in walk_no_nested(hfl[0]) if isinstance(a, ast.Assign) for c_ in trims_in(a.value)]
    # _clean_path itself: normpath + slashes + casefold
    cp = fs.func('VirtualFileSystem._clean_path')
    rets = [r for r in walk_no_nested(cp) if isinstance(r, ast.Return) and r.value is not None]
    f = FormEnv(cp).form(rets[-1].value) if rets else frozenset()
    ctx.check('C19.H1', FOLDED in f and SLASHED in f, fs, cp, f'VirtualFileSystem._clean_path must casefold and convert backslashes (form found: {sorted(f)})', text='_clean_path normal form')

    for cls, index in BACKENDS.items():
        ms = fs.methods(cls)
        init = ms['__init__']
        # index key form at construction: the key expression of the dict comprehension assigned to self.<index>
        key_form = None
        for n in ast.walk(init):
            if isinstance(n, (ast.Assign, ast.AnnAssign)) and isinstance(n.value, ast.DictComp):
                tgt = n.targets[0] if isinstance(n, ast.Assign) else n.target
                if dotted(tgt) == f'self.{index}':
                    attr_forms = {f'{g.target.id}.filename': frozenset({SLASHED}) for g in n.value.generators
                                  if isinstance(g.target, ast.Name) and isinstance(g.iter, ast.Call) and isinstance(g.iter.func, ast.Attribute) and g.iter.func.attr == 'infolist'}
                    key_form = FormEnv(init, call_forms=call_forms, attr_forms=attr_forms).form(n.value.key)
                    key_expr = n.value.key
        if key_form is None:
            # the loop form: `tbl = {}` / `for info in ...: if <dir entry>: continue; tbl[<key>] = info` / `self.<index> = tbl`
            locs_ = [dotted(a.value) for a in ast.walk(init) if isinstance(a, (ast.Assign, ast.AnnAssign)) and a.value is not None and isinstance(a.value, ast.Name)
                     and any(dotted(t) == f'self.{index}' for t in (a.targets if isinstance(a, ast.Assign) else [a.target]))]
            for lp_ in [l for l in ast.walk(init) if isinstance(l, ast.For)]:
                st_ = [a for a in ast.walk(lp_) if isinstance(a, ast.Assign) and len(a.targets) == 1 and isinstance(a.targets[0], ast.Subscript) and (dotted(a.targets[0].value) in locs_ or dotted(a.targets[0].value) == f'self.{index}')]
                if len(st_) == 1 and isinstance(lp_.target, (ast.Name, ast.Tuple)):
                    attr_forms = {f'{lp_.target.id}.filename': frozenset({SLASHED})} if isinstance(lp_.target, ast.Name) and isinstance(lp_.iter, ast.Call) and isinstance(lp_.iter.func, ast.Attribute) and lp_.iter.func.attr == 'infolist' else {}
                    key_expr = st_[0].targets[0].slice
                    key_form = FormEnv(init, call_forms=call_forms, attr_forms=attr_forms).form(key_expr)
                    # what the loop leaves out: `if c: continue` in front of the store, and `if c:` around it
                    top_ = next(b for b in lp_.body if st_[0] is b or any(st_[0] is x for x in ast.walk(b)))
                    skips_ = [(b.test, True) for b in lp_.body[:lp_.body.index(top_)] if isinstance(b, ast.If) and b.body and isinstance(b.body[-1], ast.Continue) and not b.orelse]
                    skips_ += [(a_.test, False) for a_ in _anc19(fs, st_[0], lp_) if isinstance(a_, ast.If)]
                    for t_, skip_when_true in skips_:
                        core_ = t_.operand if (not skip_when_true and isinstance(t_, ast.UnaryOp) and isinstance(t_.op, ast.Not)) else t_
                        polarity_ok = skip_when_true or (isinstance(t_, ast.UnaryOp) and isinstance(t_.op, ast.Not))
                        is_dir_test = polarity_ok and isinstance(core_, ast.Call) and isinstance(core_.func, ast.Attribute) and (core_.func.attr == 'is_dir' or (core_.func.attr == 'endswith' and core_.args and isinstance(core_.args[0], ast.Constant)
                                                                                                                                                        and core_.args[0].value in ('/', ('/', '\\'))))
                        ctx.check('C19.H1', is_dir_test, fs, t_, f'{cls}: the index loop leaves members out depending on `{U(t_)[:60]}` - that is not a test for a directory entry, so real files are missing from this backend '
                                  'while the other backends have them', func=f'{cls}.__init__', text=f'{cls} index filter `{U(t_)[:40]}`')
        if key_form is None:
            # `index.setdefault(<key>, entry)` in a loop keeps the FIRST of several spellings of one name; the dict comprehension / plain store
            # of the other backends keeps the last: the same file set then answers with different bytes depending on the backend
            sd_ = [c for c in ast.walk(init) if isinstance(c, ast.Call) and isinstance(c.func, ast.Attribute) and c.func.attr == 'setdefault' and (dotted(c.func.value) or '').split('.')[-1] in (index, index.lstrip('_')) and len(c.args) == 2]
            if sd_:
                key_expr = sd_[0].args[0]
                key_form = FormEnv(init, call_forms=call_forms).form(key_expr)
                ctx.check('C19.H1', False, fs, sd_[0], f'{cls}.__init__ fills its index with `{U(sd_[0])[:60]}`: of several spellings of one name (differing in case or slash style) the first is kept, while the zip and VPK '
                          'backends keep the last - the backends disagree on the content of that name', func=f'{cls}.__init__', text=f'{cls} index keeps the last of duplicate spellings')
        if key_form is None:
            raise AnalysisError(f'{cls}.__init__: index {index} is not built by a dict comprehension')
        # every *file* of the container is indexed: the only members the comprehension may leave out are directory entries
        for n in ast.walk(init):
            if isinstance(n, (ast.Assign, ast.AnnAssign)) and isinstance(n.value, ast.DictComp) and any(dotted(t) == f'self.{index}' for t in (n.targets if isinstance(n, ast.Assign) else [n.target])):
                for g in n.value.generators:
                    for cond in g.ifs:
                        conds = cond.values if isinstance(cond, ast.BoolOp) and isinstance(cond.op, ast.And) else [cond]
                        for c1 in conds:
                            is_dir_test = isinstance(c1, ast.UnaryOp) and isinstance(c1.op, ast.Not) and isinstance(c1.operand, ast.Call) and isinstance(c1.operand.func, ast.Attribute) \
                                and (c1.operand.func.attr == 'is_dir' or (c1.operand.func.attr == 'endswith' and c1.operand.args and isinstance(c1.operand.args[0], ast.Constant) and c1.operand.args[0].value in ('/', ('/', '\\'))))
                            ctx.check('C19.H1', is_dir_test, fs, c1, f'{cls}: the index leaves out members for which `{U(c1)[:60]}` is false - that is not a test for a directory entry, so real files (an empty file has '
                                      'file_size 0) are missing from this backend while the other backends have them', func=f'{cls}.__init__', text=f'{cls} index filter `{U(c1)[:40]}`')
        ctx.check('C19.H1', FOLDED in key_form and SLASHED in key_form, fs, key_expr, f'{cls}: index keys `{U(key_expr)}` must be casefolded with forward slashes (form {sorted(key_form)})',
                  func=f'{cls}.__init__', text=f'{cls} index key form')
        clean = 'CLEAN' in key_form
        # lookups
        for mname in ('_get_file', '_file_exists', 'open_bin', 'open_str'):
            fn = ms.get(mname)
            if fn is None:
                continue
            env = FormEnv(fn, call_forms=call_forms)
            sites = []
            # the method itself and the private helpers of the class it calls on self (a shared `_lookup(name)`): one level
            scope_fns = [fn] + [ms[c.func.attr] for c in walk_no_nested(fn) if isinstance(c, ast.Call) and isinstance(c.func, ast.Attribute) and dotted(c.func.value) == 'self'
                               and c.func.attr in ms and c.func.attr.startswith('_') and not c.func.attr.startswith('__') and c.func.attr not in ('_get_file', '_file_exists', '_clean_path')]
            for sfn in scope_fns:
              if sfn is fn:
                  senv = env
              else:
                  # a private helper sees its parameters in the form every caller in the class hands them over (`self._lookup(name.replace(..))`)
                  pf_: Dict[str, FrozenSet[str]] = {}
                  hparams_ = [a.arg for a in sfn.args.args[1:]]
                  for cm_, cf_ in ms.items():
                      cenv_ = env if cf_ is fn else FormEnv(cf_, call_forms=call_forms)
                      for c_ in walk_no_nested(cf_):
                          if isinstance(c_, ast.Call) and isinstance(c_.func, ast.Attribute) and dotted(c_.func.value) == 'self' and c_.func.attr == sfn.name:
                              for i_, a_ in enumerate(c_.args[:len(hparams_)]):
                                  fm_ = cenv_.form(a_)
                                  pf_[hparams_[i_]] = fm_ if hparams_[i_] not in pf_ else pf_[hparams_[i_]] & fm_
                  senv = FormEnv(sfn, call_forms=call_forms, param_forms=pf_)
              for n in walk_no_nested(sfn):
                if isinstance(n, ast.Subscript) and dotted(n.value) == f'self.{index}':
                    sites.append((n, n.slice, senv))
                    continue
                if isinstance(n, ast.Compare) and isinstance(n.ops[0], (ast.In, ast.NotIn)) and dotted(n.comparators[0]) == f'self.{index}':
                    sites.append((n, n.left, senv))
                    continue
                if isinstance(n, ast.Call) and isinstance(n.func, ast.Attribute) and n.func.attr in ('get', 'pop') and dotted(n.func.value) == f'self.{index}' and n.args:
                    sites.append((n, n.args[0], senv))
            for n in []:
                if isinstance(n, ast.Subscript) and dotted(n.value) == f'self.{index}':
                    sites.append((n, n.slice))
                if isinstance(n, ast.Compare) and isinstance(n.ops[0], (ast.In, ast.NotIn)) and dotted(n.comparators[0]) == f'self.{index}':
                    sites.append((n, n.left))
                if isinstance(n, ast.Call) and isinstance(n.func, ast.Attribute) and n.func.attr in ('get', 'pop') and dotted(n.func.value) == f'self.{index}' and n.args:
                    sites.append((n, n.args[0]))
            if not sites and mname in ('_get_file', '_file_exists'):
                # the answer has to come from the folded index: the wrapped archive object matches names by its own (case-sensitive / differently
                # split) rules
                other = [n for n in walk_no_nested(fn) if (isinstance(n, ast.Compare) and isinstance(n.ops[0], (ast.In, ast.NotIn)) and (dotted(n.comparators[0]) or '').startswith('self.'))
                         or (isinstance(n, ast.Subscript) and (dotted(n.value) or '').startswith('self.') and dotted(n.value) != f'self.{index}')]
                delegates = [c for c in walk_no_nested(fn) if isinstance(c, ast.Call) and dotted(c.func) in ('self._get_file', 'self._file_exists') and dotted(c.func) != f'self.{mname}']
                if delegates:
                    ctx.check('C19.H1', True, fs, delegates[0], f'{cls}.{mname} delegates to {dotted(delegates[0].func)}', func=f'{cls}.{mname}', text=f'{cls}.{mname} lookup key form')
                elif other:
                    ctx.check('C19.H1', False, fs, other[0], f'{cls}.{mname} answers from `{U(other[0])[:70]}` instead of the folded index self.{index}: the wrapped container compares names by its own rules, '
                              'so spellings differing in case (or slash style) stop resolving alike across the backends', func=f'{cls}.{mname}', text=f'{cls}.{mname} lookup key form')
                else:
                    ctx.shape('C19.H1', False, fs, fn, f'{cls}.{mname} does not consult self.{index}', func=f'{cls}.{mname}', text=f'{cls}.{mname} lookup key form')
            for node, kexpr, senv in sites:
                # characters trimmed off the name asked for, which the index keys keep (a leading '.' is part of `.gitignore`)
                tr_ = trims_in(kexpr)
                seen_n: Set[str] = set()
                todo_n = [x.id for x in ast.walk(kexpr) if isinstance(x, ast.Name)]
                while todo_n:
                    nm_ = todo_n.pop()
                    if nm_ in seen_n:
                        continue
                    seen_n.add(nm_)
                    for d_ in senv.defs.get(nm_, []):
                        tr_ = tr_ + trims_in(d_)
                        todo_n += [x.id for x in ast.walk(d_) if isinstance(x, ast.Name)]
                idx_tr = {U(c_.args[0]) for c_ in trims_in(key_expr)} if key_expr is not None else set()
                extra_tr = [c_ for c_ in tr_ if U(c_.args[0]) not in idx_tr]
                ctx.check('C19.H1', not extra_tr, fs, node, f'{cls}.{mname} strips `{U(extra_tr[0].args[0]) if extra_tr else ""}` off the name before looking it up (`{U(extra_tr[0])[:50] if extra_tr else ""}`), the index keys keep those characters: '
                          'a name that begins with one of them (`.gitignore`) is listed but not found, unlike in the other backends', func=f'{cls}.{mname}', text=f'{cls}.{mname} lookup key not trimmed')
                form = senv.form(kexpr)
                ok = FOLDED in form and SLASHED in form and (('CLEAN' in form) == clean)
                ctx.check('C19.H1', ok, fs, node, f'{cls}.{mname} looks up `{U(kexpr)}` (form {sorted(form)}) but the index keys have form {sorted(key_form)}: '
                          'names differing in case or slash style resolve differently', func=f'{cls}.{mname}', text=f'{cls}.{mname} lookup key form')
        # ---- H2/H3 on walk_folder ---------------------------------------------------------------------------
        wf = ms['walk_folder']
        env = FormEnv(wf, call_forms=call_forms)
        tests = [n for n in walk_no_nested(wf) if isinstance(n, ast.Call) and isinstance(n.func, ast.Attribute) and n.func.attr == 'startswith' and n.args]
        if len(tests) != 1:
            raise AnalysisError(f'{cls}.walk_folder: expected one startswith() folder test, found {len(tests)}')
        t = tests[0]
        subj, pref = t.func.value, t.args[0]
        # the subject must be an index key (loop variable over the keys / items of the index)
        subj_is_key = False
        loops = [l for l in walk_no_nested(wf) if isinstance(l, ast.For)]
        for l in loops:
            it = U(l.iter)
            tgt0 = l.target.elts[0] if isinstance(l.target, ast.Tuple) else l.target
            if it in (f'self.{index}.items()', f'self.{index}', f'self.{index}.keys()') and dotted(tgt0) == dotted(subj):
                subj_is_key = True
        sform = env.form(subj)
        pform = env.form(pref)
        ok = subj_is_key or (FOLDED in sform and SLASHED in sform)
        ctx.check('C19.H1', ok, fs, t, f'{cls}.walk_folder tests `{U(subj)}` which is not a normalised index key (form {sorted(sform)}): original-case names never match the folded folder',
                  func=f'{cls}.walk_folder', text=f'{cls}.walk_folder subject is an index key')
        ctx.check('C19.H1', FOLDED in pform and SLASHED in pform, fs, t, f'{cls}.walk_folder compares against `{U(pref)}` of form {sorted(pform)}; the folder must be casefolded with forward slashes like the keys',
                  func=f'{cls}.walk_folder', text=f'{cls}.walk_folder folder operand form')
        # H2: separator-terminated-or-empty: look for the guarded append of '/'
        src = U(wf)
        pname = dotted(pref)
        sep_ok = False
        for n in walk_no_nested(wf):
            if isinstance(n, ast.AugAssign) and dotted(n.target) == pname and isinstance(n.op, ast.Add) and isinstance(n.value, ast.Constant) and n.value.value == '/':
                par = fs.parents.get(n)
                if isinstance(par, ast.If):
                    tt = U(par.test)
                    if 'endswith' in tt or tt.strip() == pname:
                        sep_ok = True
        ctx.check('C19.H2', sep_ok, fs, t, f'{cls}.walk_folder uses `{U(t)}` without making the folder end in a separator: folder "mat" also lists "materials/..."',
                  func=f'{cls}.walk_folder', text=f'{cls}.walk_folder whole-folder match')
        if clean:
            # normpath('') == '.', must be mapped back to the empty prefix
            dot_ok = any(isinstance(n, ast.If) and U(n.test) in (f"{pname} == '.'",) and any(isinstance(s, ast.Assign) and isinstance(s.value, ast.Constant) and s.value.value == '' for s in n.body)
                         for n in walk_no_nested(wf))
            ctx.check('C19.H2', dot_ok, fs, wf, f"{cls}.walk_folder normalises the folder with _clean_path, which turns '' into '.': without mapping that back iterating the filesystem yields nothing",
                      func=f'{cls}.walk_folder', text=f'{cls}.walk_folder empty folder')
        else:
            ctx.check('C19.H2', True, fs, wf, 'the empty folder stays empty under this normaliser', func=f'{cls}.walk_folder', text=f'{cls}.walk_folder empty folder')
        # H3: the File yielded carries the stored name or the key
        ys = [n for n in walk_no_nested(wf) if isinstance(n, ast.Yield) and isinstance(n.value, ast.Call) and dotted(n.value.func) == 'File']
        if not ys:
            raise AnalysisError(f'{cls}.walk_folder: expected a `yield File(...)`')
        loop_vars = {x.id for l in walk_no_nested(wf) if isinstance(l, ast.For) and f'self.{index}' in U(l.iter) for x in ast.walk(l.target) if isinstance(x, ast.Name)}
        for y_ in ys:
            parg = y_.value.args[1]
            psrc = U(parg)
            ok = (isinstance(parg, ast.Name) and parg.id in loop_vars) or (isinstance(parg, ast.Attribute) and parg.attr == 'filename' and isinstance(parg.value, ast.Name) and parg.value.id in loop_vars)
            # every listing walks the INDEX the lookups use: a second source of names (the archive's own entry list) lists entries the index
            # has merged - two names differing in letter case are one file for `fs[name]` but two for the walk
            lp_ = next((a for a in _anc19(fs, y_, wf) if isinstance(a, ast.For)), None)
            if lp_ is not None and f'self.{index}' not in U(lp_.iter):
                ctx.check('C19.H3', False, fs, y_, f'{cls}.walk_folder also lists files from `{U(lp_.iter)[:50]}` instead of the index self.{index}: names the index folds into one entry (differing only in letter case) '
                          'are listed separately, and the extra name looks up to the other entry\'s content', func=f'{cls}.walk_folder', text=f'{cls}.walk_folder yields stored name')
                continue
            ctx.check('C19.H3', ok, fs, y_, f'{cls}.walk_folder yields File(path={psrc}); it must be the stored file name (which the lookup normalises) or its key', func=f'{cls}.walk_folder', text=f'{cls}.walk_folder yields stored name')
    # ---- H6: the zip backend reaches the archive only through its folded index ---------------------------------------------------------------
    # ZipFile's own lookups (getinfo, NameToInfo, open/read with a name string) are exact-case: used with a name they bypass _name_to_info, so two
    # spellings of one name can open different entries (case-duplicate entries) or one of them fails.  Inside ZipFileSystem the archive is
    # opened with a ZipInfo taken from the index (or carried by a File the index produced).
    ctx.rule('C19.H6', 'ZipFileSystem opens archive members by a ZipInfo from its folded index, never by ZipFile name lookups', floor=1)
    zm = fs.methods('ZipFileSystem')
    n_h6 = 0

    def _idx_entry(d: ast.AST, depth: int = 0) -> bool:
        if isinstance(d, ast.Call) and dotted(d.func) == 'self._get_data':
            return True
        if isinstance(d, ast.Subscript) and dotted(d.value) == 'self._name_to_info':
            return True
        if isinstance(d, ast.Call) and isinstance(d.func, ast.Attribute) and d.func.attr == 'get' and dotted(d.func.value) == 'self._name_to_info':
            return True
        # a private lookup helper of the class whose every return is an index entry
        if isinstance(d, ast.Call) and isinstance(d.func, ast.Attribute) and dotted(d.func.value) == 'self' and d.func.attr in zm and depth < 2:
            rets_ = [r for r in walk_no_nested(zm[d.func.attr]) if isinstance(r, ast.Return)]
            hdefs_: Dict[str, List[ast.AST]] = {}
            for a_ in walk_no_nested(zm[d.func.attr]):
                if isinstance(a_, ast.Assign) and len(a_.targets) == 1 and isinstance(a_.targets[0], ast.Name):
                    hdefs_.setdefault(a_.targets[0].id, []).append(a_.value)
            def _ret_ok(v: Optional[ast.AST]) -> bool:
                if v is None:
                    return False
                if isinstance(v, ast.Name) and v.id in hdefs_:
                    return all(_idx_entry(x, depth + 1) for x in hdefs_[v.id])
                return _idx_entry(v, depth + 1)
            return bool(rets_) and all(_ret_ok(r.value) for r in rets_)
        return False
    for mn_, mf_ in zm.items():
        info_names: Set[str] = set()
        for a in ast.walk(mf_):
            if isinstance(a, ast.Assign) and len(a.targets) == 1 and isinstance(a.targets[0], ast.Name):
                v = a.value
                if _idx_entry(v):
                    info_names.add(a.targets[0].id)
            if isinstance(a, (ast.For, ast.comprehension)) and any(k in U(a.iter) for k in ('self._name_to_info', 'self.zip.infolist()')):
                info_names |= {x.id for x in ast.walk(a.target) if isinstance(x, ast.Name)}
        for c in ast.walk(mf_):
            if isinstance(c, ast.Attribute) and dotted(c.value) == 'self.zip' and c.attr in ('getinfo', 'NameToInfo', 'namelist'):
                n_h6 += 1
                ctx.check('C19.H6', False, fs, c, f'ZipFileSystem.{mn_} uses `self.zip.{c.attr}`, the archive\'s exact-case name lookup: it bypasses the folded index, so the spelling of a query decides which of two entries differing '
                          'only in case is opened (and other spellings of an existing name fail)', func=f'ZipFileSystem.{mn_}', text=f'{mn_}: no exact-case lookup ({c.attr})')
            if isinstance(c, ast.Call) and isinstance(c.func, ast.Attribute) and dotted(c.func.value) == 'self.zip' and c.func.attr in ('open', 'read', 'extract') and c.args:
                a0 = c.args[0]
                n_h6 += 1
                if isinstance(a0, ast.Name) and a0.id in info_names:
                    # every definition of the name is an index entry?
                    defs_ = [a.value for a in ast.walk(mf_) if isinstance(a, ast.Assign) and any(isinstance(t, ast.Name) and t.id == a0.id for t in a.targets)]
                    bad_ = [d for d in defs_ if not _idx_entry(d)]
                    ctx.check('C19.H6', not bad_, fs, bad_[0] if bad_ else c, f'ZipFileSystem.{mn_} opens `{a0.id}`, which on one path is `{U(bad_[0])[:50] if bad_ else ""}` and not an entry of the folded index', func=f'ZipFileSystem.{mn_}',
                              text=f'{mn_}: `{U(c)[:40]}` opens an index entry')
                elif _idx_entry(a0):
                    ctx.check('C19.H6', True, fs, c, 'index entry', func=f'ZipFileSystem.{mn_}', text=f'{mn_}: `{U(c)[:40]}` opens an index entry')
                else:
                    ctx.shape('C19.H6', False, fs, c, f'what `{U(a0)[:40]}` handed to self.zip.{c.func.attr}() is was not recognised (expected: a ZipInfo from self._name_to_info or self._get_data)', func=f'ZipFileSystem.{mn_}',
                              text=f'{mn_}: `{U(c)[:40]}` opens an index entry')
    if n_h6 < 1:
        raise AnalysisError('H6: ZipFileSystem no longer opens members through self.zip.open(): anchor vanished')
    # ---- H3 (directory backend): listed names are relative to the root of the filesystem -----------------------------------------------------
    # RawFileSystem.walk_folder(folder) lists names that its own lookup resolves against self.path; `os.path.relpath(<file>, <base>)` must
    # therefore be taken against self.path - relative to the walked folder the listed names lose the folder prefix.
    rwf = rawm_early = fs.methods('RawFileSystem')['walk_folder']
    rels = [c for c in ast.walk(rwf) if isinstance(c, ast.Call) and (dotted(c.func) or '').endswith('relpath') and len(c.args) == 2]
    ctx.shape('C19.H3', len(rels) >= 1, fs, rwf, 'RawFileSystem.walk_folder computes the listed names with os.path.relpath(<file>, <base>)', func='RawFileSystem.walk_folder', text='directory listing relative to the root')
    for rc in rels:
        ctx.check('C19.H3', dotted(rc.args[1]) == 'self.path', fs, rc, f'RawFileSystem.walk_folder lists names relative to `{U(rc.args[1])[:40]}` instead of self.path: for a non-empty folder the listed names lack the folder prefix, '
                  'so they cannot be looked up (or resolve to another file of the root), and differ from what the in-memory, zip and VPK backends list', func='RawFileSystem.walk_folder', text='directory listing relative to the root')
    # ---- H4 (iteration): iterating a filesystem is its de-duplicated walk -------------------------------------------------------------------------
    n_it = 0
    for cn_ in [c.name for c in fs.tree.body if isinstance(c, ast.ClassDef)]:
        itf = fs.methods(cn_).get('__iter__')
        if itf is None:
            continue
        n_it += 1
        walks = [c for c in ast.walk(itf) if isinstance(c, ast.Call) and isinstance(c.func, ast.Attribute) and dotted(c.func.value) == 'self' and c.func.attr.startswith('walk')]
        ok_it = len(walks) == 1 and walks[0].func.attr == 'walk_folder' and len(walks[0].args) == 1 and isinstance(walks[0].args[0], ast.Constant) and walks[0].args[0].value == ''
        if not walks:
            ctx.shape('C19.H4', False, fs, itf, f'{cn_}.__iter__ does not delegate to a walk method', func=f'{cn_}.__iter__', text=f'{cn_}.__iter__ is walk_folder(\'\')')
            continue
        ctx.check('C19.H4', ok_it, fs, walks[0], f'{cn_}.__iter__ returns `{U(walks[0])[:40]}` instead of walk_folder(\'\'): iterating a chain then lists a name once per member that has it, and the extra entries are '
                  'the lower-priority files - a listed file is not what a lookup of its name gives', func=f'{cn_}.__iter__', text=f'{cn_}.__iter__ is walk_folder(\'\')')
    ctx.shape('C19.H4', n_it >= 1, fs, fs.tree, 'FileSystem.__iter__ not found', text='__iter__ definitions')
    # ---- H4 (no member is passed over): a chain lookup asks every member in order ------------------------------------------------------------
    # FileSystemChain._get_file / _file_exists go on to the next member only because the current one does not have the name (its lookup
    # raised FileNotFoundError / answered False).  A `continue` under a test on the name or the prefix passes a member over without asking it.
    chm = fs.methods('FileSystemChain')
    for mn_ in ('_get_file', '_file_exists', 'open_bin', 'open_str'):
        cf_ = chm.get(mn_)
        if cf_ is None:
            continue
        for lp_ in [l for l in walk_no_nested(cf_) if isinstance(l, ast.For) and 'systems' in U(l.iter)]:
            for cont_ in [c for c in ast.walk(lp_) if isinstance(c, ast.Continue)]:
                guards_ = [a for a in _anc19(fs, cont_, lp_) if isinstance(a, ast.If)]
                in_handler = any(isinstance(a, ast.ExceptHandler) for a in _anc19(fs, cont_, lp_))
                if guards_ and not in_handler:
                    ctx.check('C19.H4', False, fs, guards_[0], f'FileSystemChain.{mn_} passes a member over when `{U(guards_[0].test)[:60]}` without asking it for the name: a member whose prefix is spelled differently from the '
                              'normalised query (backslashes, case) is skipped by every lookup although walk_folder lists its files', func=f'FileSystemChain.{mn_}', text=f'{mn_}: every member is asked in order')
    # ---- H5: the directory backend's two existence tests agree (and mean "is a file": the other backends only index files) ---------------
    ctx.rule('C19.H5', 'RawFileSystem._file_exists and _get_file use the same "is a file" test on the resolved path', floor=2)
    rawm = fs.methods('RawFileSystem')
    preds = {}
    for mn_ in ('_file_exists', '_get_file'):
        preds[mn_] = sorted({dotted(c.func) for c in ast.walk(rawm[mn_]) if isinstance(c, ast.Call) and (dotted(c.func) or '').startswith('os.path.') and dotted(c.func).split('.')[-1] in ('isfile', 'exists', 'isdir', 'lexists')})
        ctx.shape('C19.H5', len(preds[mn_]) == 1, fs, rawm[mn_], f'RawFileSystem.{mn_} tests the resolved path with one os.path predicate (found {preds[mn_]})', func=f'RawFileSystem.{mn_}', text=f'{mn_} predicate')
    for mn_ in ('_file_exists', '_get_file'):
        if len(preds[mn_]) == 1:
            ctx.check('C19.H5', preds[mn_] == ['os.path.isfile'], fs, rawm[mn_], f'RawFileSystem.{mn_} asks {preds[mn_][0]}(): a folder of the file set then counts as an existing name here, while the in-memory, zip and VPK '
                      'backends (which index files only) say it is absent - and `name in fs` disagrees with `fs[name]`', func=f'RawFileSystem.{mn_}', text=f'{mn_} predicate')
    # the directory walk: a folder argument that names nothing (or a file) lists nothing in the indexed backends - no key has it as a folder
    # prefix.  os.walk() gives the same answer as long as its error policy stays the silent default; an `onerror` that raises turns
    # "nothing inside" into an exception, which also aborts a chain walk that includes this member.
    rwf = rawm['walk_folder']
    walks = [c for c in ast.walk(rwf) if isinstance(c, ast.Call) and dotted(c.func) in ('os.walk', 'walk')]
    # enumeration through glob patterns: `*` and `**` never match a name that begins with a dot (unless include_hidden=True is passed), so dot
    # files and everything under dot folders disappear from the walk while lookups - and the other backends - still have them
    globs = [c for c in ast.walk(rwf) if isinstance(c, ast.Call) and dotted(c.func) in ('glob.glob', 'glob.iglob', 'iglob', 'glob')]
    for gc in globs:
        hidden = next((k.value for k in gc.keywords if k.arg == 'include_hidden'), None)
        ctx.check('C19.H2', isinstance(hidden, ast.Constant) and hidden.value is True, fs, gc, f'RawFileSystem.walk_folder lists the folder with `{U(gc)[:70]}`: glob patterns skip every name that starts with "." (dot files, and all '
                  'files under dot folders), which `name in fs`, `fs[name]` and the in-memory / zip / VPK backends do have', func='RawFileSystem.walk_folder', text='RawFileSystem.walk_folder: every file is listed')
    if not globs:
        ctx.shape('C19.H2', len(walks) == 1, fs, rwf, f'{len(walks)} os.walk() calls in RawFileSystem.walk_folder (1 confirmed by hand)', func='RawFileSystem.walk_folder', text='RawFileSystem.walk_folder: os.walk')
    for wk in walks:
        oe = next((k.value for k in wk.keywords if k.arg == 'onerror'), wk.args[2] if len(wk.args) >= 3 else None)
        if oe is None or (isinstance(oe, ast.Constant) and oe.value is None):
            ctx.check('C19.H2', True, fs, wk, 'default error policy', func='RawFileSystem.walk_folder', text='RawFileSystem.walk_folder: an unlistable folder is empty')
            continue
        hname = oe.attr if isinstance(oe, ast.Attribute) and dotted(oe.value) in ('self', 'cls', 'RawFileSystem') else (oe.id if isinstance(oe, ast.Name) else None)
        hfn = rawm.get(hname) if hname in rawm else next((f_ for f_ in list(ast.walk(rwf)) + list(fs.tree.body) if isinstance(f_, ast.FunctionDef) and f_ is not rwf and f_.name == hname), None)
        if isinstance(oe, ast.Lambda):
            hfn = oe
        if hfn is None:
            ctx.shape('C19.H2', False, fs, wk, f'error handler `{U(oe)[:40]}` of os.walk() not resolved', func='RawFileSystem.walk_folder', text='RawFileSystem.walk_folder: an unlistable folder is empty')
            continue
        raises = [r for r in ast.walk(hfn) if isinstance(r, ast.Raise)]
        ctx.check('C19.H2', not raises, fs, raises[0] if raises else wk, f'os.walk() in RawFileSystem.walk_folder is given an error handler that raises (`{U(raises[0]) if raises else ""}`): walking a name that is a file, or an '
                  'unlistable folder, raises here while the in-memory, zip and VPK backends list nothing for it - and a chain walk containing this member is aborted', func='RawFileSystem.walk_folder', text='RawFileSystem.walk_folder: an unlistable folder is empty')
    # ---- H4 ----------------------------------------------------------------------------------------------------
    ch = fs.methods('FileSystemChain')
    gf = ch['_get_file']
    loops = [l for l in walk_no_nested(gf) if isinstance(l, ast.For)]
    ok = len(loops) == 1 and U(loops[0].iter) == 'self.systems' and any(isinstance(n, ast.Return) for n in ast.walk(loops[0])) \
        and any(isinstance(h.body[0], ast.Continue) for t in ast.walk(loops[0]) if isinstance(t, ast.Try) for h in t.handlers)
    ctx.shape('C19.H4', ok, fs, gf, 'FileSystemChain._get_file must try self.systems in list order and return on the first member that has the file', func='FileSystemChain._get_file', text='first hit in list order')
    # how the prefix is put in front of the name: os.path.join keeps exactly one separator whatever the spelling of the prefix ('addon',
    # 'addon/'); gluing with a literal '/' doubles it for 'addon/', and the zip / VPK members look names up verbatim
    def member_loop_vars(fn_: ast.AST) -> tuple:
        # `for <member>, <prefix> in self.systems` - whatever the two are called
        for l_ in walk_no_nested(fn_):
            if isinstance(l_, ast.For) and dotted(l_.iter) == 'self.systems' and isinstance(l_.target, ast.Tuple) and len(l_.target.elts) == 2 and all(isinstance(e, ast.Name) for e in l_.target.elts):
                return l_.target.elts[0].id, l_.target.elts[1].id
        return 'sys', 'prefix'
    _, gpref = member_loop_vars(gf)
    gname = gf.args.args[1].arg if len(gf.args.args) > 1 else 'name'
    names_of = lambda e: {x.id for x in ast.walk(e) if isinstance(x, ast.Name)}
    joins = [c for c in ast.walk(gf) if isinstance(c, ast.Call) and dotted(c.func) == 'os.path.join' and [dotted(a) for a in c.args] == [gpref, gname]]
    glued = [j for j in ast.walk(gf) if isinstance(j, ast.JoinedStr) and any(isinstance(v, ast.FormattedValue) and dotted(v.value) == gpref for v in j.values)
             and any(isinstance(v, ast.FormattedValue) and dotted(v.value) == gname for v in j.values)] + \
            [b for b in ast.walk(gf) if isinstance(b, ast.BinOp) and isinstance(b.op, ast.Add) and gpref in names_of(b) and gname in names_of(b) and "'/'" in U(b)]
    if joins:
        ctx.check('C19.H4', True, fs, joins[0], 'os.path.join(prefix, name)', func='FileSystemChain._get_file', text='prefix joined on lookup')
    elif glued:
        ctx.check('C19.H4', False, fs, glued[0], f'FileSystemChain._get_file builds the member name as `{U(glued[0])[:60]}`: a prefix spelled with a trailing separator gives `addon//cfg/x`, which the in-memory member tolerates '
                  'but the zip and VPK members (verbatim key lookup) do not - the chain falls through to a lower-priority member while walk_folder (os.path.join) still lists the file', func='FileSystemChain._get_file', text='prefix joined on lookup')
    else:
        ctx.shape('C19.H4', False, fs, gf, 'the member prefix must be joined in front of the looked-up name', func='FileSystemChain._get_file', text='prefix joined on lookup')
    # a memo of earlier answers in front of the member loop is only right while the member list is what it was: every method that changes
    # self.systems has to drop it (a priority insert puts a member in front of the one the cached answer came from)
    memo_attrs = set()
    first_loop_line = min((l.lineno for l in walk_no_nested(gf) if isinstance(l, ast.For) and dotted(l.iter) == 'self.systems'), default=10 ** 9)
    for r_ in [x for x in ast.walk(gf) if isinstance(x, ast.Return) and x.value is not None and x.lineno < first_loop_line]:
        for sub_ in ast.walk(r_.value):
            if isinstance(sub_, ast.Subscript) and (dotted(sub_.value) or '').startswith('self.') and dotted(sub_.value) != 'self.systems':
                memo_attrs.add(dotted(sub_.value))
            if isinstance(sub_, ast.Call) and isinstance(sub_.func, ast.Attribute) and sub_.func.attr == 'get' and (dotted(sub_.func.value) or '').startswith('self.'):
                memo_attrs.add(dotted(sub_.func.value))
    for ma in sorted(memo_attrs):
        for mname2, mfn2 in ch.items():
            changes = [c for c in ast.walk(mfn2) if (isinstance(c, ast.Call) and isinstance(c.func, ast.Attribute) and dotted(c.func.value) == 'self.systems' and c.func.attr in ('insert', 'append', 'remove', 'pop', 'clear', 'extend', 'sort', 'reverse'))
                       or (isinstance(c, (ast.Assign, ast.AugAssign, ast.Delete)) and any((dotted(t) or '').startswith('self.systems') or (isinstance(t, ast.Subscript) and dotted(t.value) == 'self.systems')
                                                                                        for t in (c.targets if isinstance(c, (ast.Assign, ast.Delete)) else [c.target])))]
            if not changes or mname2 == '__init__':
                continue
            drops = any(isinstance(c, ast.Call) and isinstance(c.func, ast.Attribute) and dotted(c.func.value) == ma and c.func.attr == 'clear' for c in ast.walk(mfn2)) or \
                any(isinstance(c, ast.Assign) and any(dotted(t) == ma for t in c.targets) for c in ast.walk(mfn2))
            ctx.check('C19.H4', drops, fs, changes[0], f'FileSystemChain._get_file answers from the memo `{ma}` before it looks at the members, but FileSystemChain.{mname2} changes self.systems without dropping it: a name looked up '
                      'earlier keeps returning the old member\'s file after a member that also has it was inserted in front (priority=True)', func=f'FileSystemChain.{mname2}', text=f'{mname2}: memo {ma} dropped when the member list changes')
    # every loop over the members, in any chain method: the name handed to a member is prefix + the caller's name, built afresh per member
    n_loops = 0
    for mname, mfn in ch.items():
        for lp in [l for l in walk_no_nested(mfn) if isinstance(l, ast.For) and U(l.iter) == 'self.systems' and isinstance(l.target, ast.Tuple) and len(l.target.elts) == 2]:
            member, pref = (dotted(e) for e in lp.target.elts)
            n_loops += 1
            outer_defs = {a.arg for a in mfn.args.args} | {t.id for n in walk_no_nested(mfn) if isinstance(n, ast.Assign) and not any(n is x for x in ast.walk(lp)) for t in n.targets if isinstance(t, ast.Name)}
            prefixed: Set[str] = set()
            carried = None
            for n in ast.walk(lp):
                if isinstance(n, ast.Assign):
                    reads = {x.id for x in ast.walk(n.value) if isinstance(x, ast.Name)}
                    for t in n.targets:
                        if isinstance(t, ast.Name):
                            if pref in reads or reads & prefixed:
                                prefixed.add(t.id)
                                if t.id in reads and t.id in outer_defs:
                                    carried = n
            ctx.check('C19.H4', carried is None, fs, carried or lp, f'FileSystemChain.{mname}: `{U(carried)[:80] if carried else ""}` re-assigns the looked-up name inside the member loop, so the prefix of one member '
                      'is still in front of the name when the next member is asked (later members miss their files, root-mounted ones report foreign names)', func=f'FileSystemChain.{mname}', text=f'{mname}: name not carried across members')
            for c in ast.walk(lp):
                if isinstance(c, ast.Call) and isinstance(c.func, ast.Attribute) and dotted(c.func.value) == member and c.args:
                    a0 = c.args[0]
                    names = {x.id for x in ast.walk(a0) if isinstance(x, ast.Name)}
                    ok = pref in names or bool(names & prefixed)
                    ctx.check('C19.H4', ok, fs, c, f'FileSystemChain.{mname} asks a member with `{U(a0)[:60]}`, which does not contain that member\'s prefix', func=f'FileSystemChain.{mname}', text=f'{mname}: {member}.{c.func.attr} gets the prefixed name')
    if n_loops < 2:
        raise AnalysisError(f'only {n_loops} loops over self.systems found in FileSystemChain (2 confirmed by hand)')
    ads = ch['add_sys']
    src = U(ads)
    prio_param = any(a.arg == 'priority' for a in ads.args.args + ads.args.kwonlyargs)
    inserts = [c for c in ast.walk(ads) if isinstance(c, ast.Call) and dotted(c.func) == 'self.systems.insert' and len(c.args) == 2]
    appends = [c for c in ast.walk(ads) if isinstance(c, ast.Call) and dotted(c.func) == 'self.systems.append']
    prio_used = any(isinstance(n, ast.Name) and n.id == 'priority' and isinstance(n.ctx, ast.Load) for n in ast.walk(ads))
    if not prio_param:
        ctx.shape('C19.H4', False, fs, ads, 'add_sys has no priority parameter', func='FileSystemChain.add_sys', text='priority insertion')
    elif not prio_used:
        ctx.check('C19.H4', False, fs, ads, 'add_sys ignores its priority parameter: a priority member must be consulted before the existing ones', func='FileSystemChain.add_sys', text='priority insertion')
    elif len(inserts) == 1 and appends:
        idx = inserts[0].args[0]
        ctx.check('C19.H4', isinstance(idx, ast.Constant) and idx.value == 0, fs, inserts[0], f'a priority member is inserted at position `{U(idx)}`; lookups take the first member that has the file, so it must go to position 0',
                  func='FileSystemChain.add_sys', text='priority insertion')
    elif len(inserts) == 1 and not appends:
        # one insert at a computed position: `0 if priority else len(self.systems)` (inserting at len() is appending)
        idx = inserts[0].args[0]
        if isinstance(idx, ast.Name):
            d_ = [a_.value for a_ in ast.walk(ads) if isinstance(a_, ast.Assign) and any(isinstance(t, ast.Name) and t.id == idx.id for t in a_.targets)]
            idx = d_[0] if len(d_) == 1 else idx
        if isinstance(idx, ast.IfExp) and (dotted(idx.test) == 'priority' or (isinstance(idx.test, ast.UnaryOp) and isinstance(idx.test.op, ast.Not) and dotted(idx.test.operand) == 'priority')):
            first_, last_ = (idx.body, idx.orelse) if dotted(idx.test) == 'priority' else (idx.orelse, idx.body)
            is_len = isinstance(last_, ast.Call) and dotted(last_.func) == 'len' and len(last_.args) == 1 and dotted(last_.args[0]) == 'self.systems'
            if isinstance(first_, ast.Constant) and is_len:
                ctx.check('C19.H4', first_.value == 0, fs, inserts[0], f'a priority member is inserted at position `{U(first_)}`; lookups take the first member that has the file, so it must go to position 0',
                          func='FileSystemChain.add_sys', text='priority insertion')
            else:
                ctx.shape('C19.H4', False, fs, inserts[0], f'insert position `{U(idx)[:60]}` not recognised', func='FileSystemChain.add_sys', text='priority insertion')
        else:
            ctx.shape('C19.H4', False, fs, inserts[0], f'insert position `{U(idx)[:60]}` not recognised', func='FileSystemChain.add_sys', text='priority insertion')
    else:
        ctx.shape('C19.H4', False, fs, ads, 'insert/append pair not recognised', func='FileSystemChain.add_sys', text='priority insertion')
    # the subfolder is handed to the members as the caller spelled it: the directory backend resolves exact-case names only, so a prefix
    # re-spelled (case-folded) at registration makes a `Materials` folder on disk unreachable
    from engine.forms import FormEnv as _FE, FOLDED as _FOLDED
    aenv = _FE(ads, param_forms={})
    def pair_of(e_: ast.AST) -> Optional[ast.Tuple]:
        # the pair itself, or a local assigned once from it (`entry = (sys, prefix)`)
        if isinstance(e_, ast.Name):
            d_ = [a_.value for a_ in ast.walk(ads) if isinstance(a_, ast.Assign) and any(isinstance(t, ast.Name) and t.id == e_.id for t in a_.targets)]
            e_ = d_[0] if len(d_) == 1 else e_
        return e_ if isinstance(e_, ast.Tuple) and len(e_.elts) == 2 else None
    stored_prefixes = [pair_of(c.args[-1]).elts[1] for c in inserts + appends if c.args and pair_of(c.args[-1]) is not None]
    # every call registers the member: an early exit ("already there") ignores a repeated add with priority=True - the chain keeps answering
    # from the member that was first before - and drops a second member that merely compares equal (same class and path label)
    skips = [n for n in walk_no_nested(ads) if isinstance(n, ast.Return)]       # (a raise is a loud refusal, not a silent drop)
    guarded = [c for c in inserts + appends if any(isinstance(a_, ast.If) and not any(isinstance(x, ast.Name) and x.id == 'priority' for x in ast.walk(a_.test)) for a_ in _anc19(fs, c, ads))]
    ctx.check('C19.H4', not skips and not guarded, fs, (skips + guarded)[0] if skips or guarded else ads, f'add_sys does not always register the member (`{U((skips + guarded)[0])[:50] if skips or guarded else ""}`): a filesystem added again '
              'with priority=True must move to the front of the search order, and two members that compare equal (same class and path) can hold different files', func='FileSystemChain.add_sys', text='every add_sys call registers the member')
    ctx.shape('C19.H4', len(stored_prefixes) == len(inserts) + len(appends) and bool(stored_prefixes), fs, ads, 'add_sys stores (system, prefix) pairs', func='FileSystemChain.add_sys', text='prefix stored as given')
    prefix_folded_at_store = False
    for sp_ in stored_prefixes:
        def may_fold(e_: ast.AST, seen_: frozenset = frozenset()) -> bool:
            if any(isinstance(x, ast.Call) and isinstance(x.func, ast.Attribute) and x.func.attr in ('casefold', 'lower', 'upper') for x in ast.walk(e_)):
                return True
            for x in ast.walk(e_):
                if isinstance(x, ast.Name) and x.id not in seen_:
                    for a_ in ast.walk(ads):
                        if isinstance(a_, ast.Assign) and any(isinstance(t, ast.Name) and t.id == x.id for t in a_.targets) and may_fold(a_.value, seen_ | {x.id}):
                            return True
            return False
        folded_ = _FOLDED in aenv.form(sp_) or may_fold(sp_)
        prefix_folded_at_store |= folded_
        ctx.check('C19.H4', not folded_, fs, sp_, f'add_sys stores the member subfolder case-folded (`{U(sp_)[:60]}`): lookups join it in front of the name, and the directory filesystem only finds '
                  'exact-case names, so a member restricted to `Materials` no longer yields anything', func='FileSystemChain.add_sys', text='prefix stored as given')
    wr = ch['walk_folder_repeat']
    src = U(wr)
    _, wpref = member_loop_vars(wr)
    wfolder = wr.args.args[1].arg if len(wr.args.args) > 1 else 'folder'
    ctx.shape('C19.H4', any(isinstance(c, ast.Call) and dotted(c.func) == 'os.path.join' and [dotted(a) for a in c.args] == [wpref, wfolder] for c in ast.walk(wr)), fs, wr, 'walk must address a prefixed member inside its prefix', func='FileSystemChain.walk_folder_repeat', text='prefix joined on walk')
    # ... and report names relative to it.  The members match folder names case-insensitively, so the files found may spell the prefix
    # differently from the chain: os.path.relpath() compares case-sensitively and then answers `../Materials/x` for prefix `materials`.
    rels = [c for c in ast.walk(wr) if isinstance(c, ast.Call) and dotted(c.func) == 'os.path.relpath' and len(c.args) == 2 and dotted(c.args[1]) == wpref]
    # locals derived from the member prefix (norm_prefix, and anything computed from it)
    pref_defs: Dict[str, ast.AST] = {}
    grew = True
    while grew:
        grew = False
        for a_ in ast.walk(wr):
            if isinstance(a_, ast.Assign) and isinstance(a_.targets[0], ast.Name) and a_.targets[0].id not in pref_defs \
                    and any(isinstance(x, ast.Name) and (x.id == wpref or x.id in pref_defs) for x in ast.walk(a_.value)):
                pref_defs[a_.targets[0].id] = a_.value
                grew = True

    def folds(e: ast.AST, depth: int = 0) -> int:
        n_ = U(e).count('casefold()')
        if prefix_folded_at_store and depth == 0:
            n_ += sum(1 for x in ast.walk(e) if isinstance(x, ast.Name) and x.id == wpref)
        if depth < 4:
            for x in ast.walk(e):
                if isinstance(x, ast.Name) and x.id in pref_defs:
                    n_ += folds(pref_defs[x.id], depth + 1)
        return n_
    folded_strip = any(isinstance(c, ast.Compare) and isinstance(c.ops[0], ast.Eq) and folds(c) >= 2 and any(isinstance(x, ast.Name) and (x.id == wpref or x.id in pref_defs) for x in ast.walk(c))
                       for c in ast.walk(wr))
    if not rels and not folded_strip:
        ctx.shape('C19.H4', False, fs, wr, 'how walk_folder_repeat removes the member prefix from the names it reports was not recognised', func='FileSystemChain.walk_folder_repeat', text='prefix stripped on walk')
    else:
        def only_fallback(c: ast.AST) -> bool:
            a = fs.parents.get(c)
            ch_ = c
            while a is not None and a is not wr:
                if isinstance(a, ast.If) and any(ch_ is x or any(ch_ is y for y in ast.walk(x)) for x in a.orelse) and 'casefold()' in U(a.test):
                    return True
                ch_, a = a, fs.parents.get(a)
            return False
        bad_rel = [c for c in rels if not (folded_strip and only_fallback(c))]
        ctx.check('C19.H4', not bad_rel, fs, bad_rel[0] if bad_rel else wr, 'FileSystemChain.walk_folder_repeat strips the member prefix with os.path.relpath(), which compares case-sensitively: a member that stores `Materials/dev/a.vmt` '
                  'under the chain prefix `materials` is reported as `../Materials/dev/a.vmt` instead of `dev/a.vmt` (and is not de-duplicated against the same name from another member)', func='FileSystemChain.walk_folder_repeat',
                  text='prefix stripped case-insensitively on walk')
    # every name the walk reports is relative to the chain and in normal form: it is either what is left of the member's name after the prefix
    # (a slice), or went through os.path.relpath / normpath.  A member's own spelling handed on untouched (`./cfg/a.cfg`, `cfg//a.cfg` - the
    # in-memory backend lists its keys as given) is a second name for a file another member lists as `cfg/a.cfg`: listed twice, and the
    # second entry is the lower-priority file
    def _strip_replace(e: ast.AST) -> ast.AST:
        while isinstance(e, ast.Call) and isinstance(e.func, ast.Attribute) and e.func.attr in ('replace', 'strip', 'lstrip', 'rstrip'):
            e = e.func.value
        return e
    n_y = 0
    for y_ in ast.walk(wr):
        if not (isinstance(y_, ast.Yield) and isinstance(y_.value, ast.Call) and dotted(y_.value.func) == 'File' and len(y_.value.args) >= 2):
            continue
        n_y += 1
        name_e = y_.value.args[1]
        defs_y = [name_e]
        if isinstance(name_e, ast.Name):
            scope_y = next((a for a in _anc19(fs, y_, wr) if isinstance(a, ast.For)), wr)
            defs_y = [a.value for a in ast.walk(scope_y) if isinstance(a, ast.Assign) and any(isinstance(t, ast.Name) and t.id == name_e.id for t in a.targets)] or [name_e]
        for d_ in defs_y:
            core_ = _strip_replace(d_)
            normal = (isinstance(core_, ast.Call) and dotted(core_.func) in ('os.path.relpath', 'os.path.normpath', 'posixpath.normpath', 'posixpath.relpath')) or isinstance(core_, ast.Subscript)
            raw_member = isinstance(core_, ast.Attribute) and core_.attr in ('path', 'filename')
            if not normal and not raw_member:
                ctx.shape('C19.H4', False, fs, y_, f'name reported by the chain walk (`{U(d_)[:50]}`) not recognised', func='FileSystemChain.walk_folder_repeat', text='chain walk reports normalised names')
                continue
            ctx.check('C19.H4', normal, fs, y_, f'FileSystemChain.walk_folder_repeat reports `{U(d_)[:60]}` - the name exactly as the member spells it: an in-memory member lists `./cfg/a.cfg` or `cfg//a.cfg` as given, so '
                      'the same file appears under two names in the de-duplicated walk, the second one with the lower-priority content', func='FileSystemChain.walk_folder_repeat', text='chain walk reports normalised names')
    ctx.shape('C19.H4', n_y >= 1, fs, wr, 'no `yield File(self, <name>, ...)` found in walk_folder_repeat', func='FileSystemChain.walk_folder_repeat', text='chain walk yields')
    ctx.shape('C19.H4', any(isinstance(l_, ast.For) and dotted(l_.iter) == 'self.systems' for l_ in walk_no_nested(wr)), fs, wr, 'walk must visit members in priority order', func='FileSystemChain.walk_folder_repeat', text='walk in list order')
    wf = ch['walk_folder']
    src = U(wf)
    adds = [c for c in ast.walk(wf) if isinstance(c, ast.Call) and isinstance(c.func, ast.Attribute) and c.func.attr == 'add' and c.args and isinstance(c.args[0], ast.Name)]
    yields = [y for y in ast.walk(wf) if isinstance(y, ast.Yield) and y.value is not None]
    # the mapping form: `found[key] = file` in the loop, the values handed out afterwards
    dstores = [n for n in ast.walk(wf) if isinstance(n, ast.Assign) and len(n.targets) == 1 and isinstance(n.targets[0], ast.Subscript) and isinstance(n.targets[0].value, ast.Name) and isinstance(n.value, ast.Name)]
    setdefs = [c for c in ast.walk(wf) if isinstance(c, ast.Call) and isinstance(c.func, ast.Attribute) and c.func.attr == 'setdefault' and isinstance(c.func.value, ast.Name) and len(c.args) == 2]
    yfroms = [y for y in ast.walk(wf) if isinstance(y, ast.YieldFrom)]
    if not adds and (dstores or setdefs) and len(yfroms) == 1 and isinstance(yfroms[0].value, ast.Call) and isinstance(yfroms[0].value.func, ast.Attribute) and yfroms[0].value.func.attr == 'values':
        dname = yfroms[0].value.func.value.id if isinstance(yfroms[0].value.func.value, ast.Name) else '?'
        for ds in dstores:
            if ds.targets[0].value.id != dname:        # type: ignore[attr-defined]
                continue
            tst = next((a.test for a in _anc19(fs, ds, wf) if isinstance(a, ast.If)), None)
            guarded = tst is not None and isinstance(tst, ast.Compare) and len(tst.ops) == 1 and isinstance(tst.ops[0], ast.NotIn) and dotted(tst.comparators[0]) == dname and U(tst.left) == U(ds.targets[0].slice)
            if tst is not None and not guarded:
                ctx.shape('C19.H4', False, fs, ds, f'store into `{dname}` under `{U(tst)[:50]}` not recognised', func='FileSystemChain.walk_folder', text='de-duplicated walk keeps the first member')
                continue
            ctx.check('C19.H4', guarded, fs, ds, f'`{U(ds)}` replaces the file remembered for a name by the one from a later member: walk_folder_repeat visits members in priority order, so the listed file '
                      'is the lowest-priority one while a lookup of the same name opens the first', func='FileSystemChain.walk_folder', text='de-duplicated walk keeps the first member')
            key_e = ds.targets[0].slice
            kd = [n.value for n in ast.walk(wf) if isinstance(n, ast.Assign) and isinstance(key_e, ast.Name) and dotted(n.targets[0]) == key_e.id]
            ke = kd[0] if kd else key_e
            fold_ok = isinstance(ke, ast.Call) and isinstance(ke.func, ast.Attribute) and ke.func.attr in ('casefold', 'lower') and U(ke.func.value) == f'{ds.value.id}.path'        # type: ignore[attr-defined]
            ctx.check('C19.H4', fold_ok, fs, ds, f'the de-duplicated walk files `{ds.value.id}` under `{U(ke)[:50]}`: the key must be the case-folded path of that very file', func='FileSystemChain.walk_folder', text='de-duplication on folded path')      # type: ignore[attr-defined]
        for sd in setdefs:
            if sd.func.value.id != dname:        # type: ignore[attr-defined]
                continue
            ctx.check('C19.H4', True, fs, sd, 'setdefault keeps the first', func='FileSystemChain.walk_folder', text='de-duplicated walk keeps the first member')
            ke = sd.args[0]
            fold_ok = isinstance(ke, ast.Call) and isinstance(ke.func, ast.Attribute) and ke.func.attr in ('casefold', 'lower') and U(ke.func.value) == f'{U(sd.args[1])}.path'
            ctx.check('C19.H4', fold_ok, fs, sd, f'the de-duplicated walk files `{U(sd.args[1])}` under `{U(ke)[:50]}`: the key must be the case-folded path of that very file', func='FileSystemChain.walk_folder', text='de-duplication on folded path')
    elif len(adds) != 1 or len(yields) != 1:
        ctx.shape('C19.H4', False, fs, wf, 'de-duplication set / yield not found', func='FileSystemChain.walk_folder', text='de-duplication on folded path')
    else:
        key_name = adds[0].args[0].id
        kdef = [n.value for n in ast.walk(wf) if isinstance(n, ast.Assign) and dotted(n.targets[0]) == key_name]
        folded = bool(kdef) and isinstance(kdef[0], ast.Call) and isinstance(kdef[0].func, ast.Attribute) and kdef[0].func.attr in ('casefold', 'lower')
        key_base = U(kdef[0].func.value) if folded else (U(kdef[0]) if kdef else '?')
        # the name that is handed out
        yv = yields[0].value
        if isinstance(yv, ast.Name):
            out_path = f'{yv.id}.path'
        elif isinstance(yv, ast.Call) and dotted(yv.func) == 'File' and len(yv.args) >= 2:
            out_path = U(yv.args[1])
        else:
            out_path = '?'
        if not kdef or out_path == '?':
            ctx.shape('C19.H4', False, fs, wf, 'de-duplication key / yielded path not recognised', func='FileSystemChain.walk_folder', text='de-duplication on folded path')
        else:
            ctx.check('C19.H4', folded and key_base == out_path, fs, adds[0], f'the de-duplicated walk remembers `{U(kdef[0])}` but hands out the name `{out_path}`: the key must be the case-folded form of exactly the name '
                      'that is listed (a member-local spelling or an unfolded name lets the same chain name through twice)', func='FileSystemChain.walk_folder', text='de-duplication on folded path')
    it = fs.func('FileSystem.__iter__')
    ok = any(isinstance(r, ast.Return) and U(r.value) == "self.walk_folder('')" for r in walk_no_nested(it))
    ctx.shape('C19.H4', ok, fs, it, "iteration must be walk_folder('')", func='FileSystem.__iter__', text="__iter__ = walk_folder('')")


MUTANTS = [
    {'id': 'virtual_index_keeps_first_spelling', 'file': 'filesys.py', 'find': "        self._mapping = {\n            self._clean_path(filename): (filename, data)\n            for filename, data in\n            dict(mapping).items()\n        }", 'replace': "        self._mapping = {}\n        for filename, data in dict(mapping).items():\n            self._mapping.setdefault(self._clean_path(filename), (filename, data))", 'expect': 'C19.H1', 'note': 'round 13'},
    {'id': 'raw_walk_relative_to_the_folder', 'file': 'filesys.py', 'find': "                    os.path.join(dirpath, file),\n                    self.path,\n", 'replace': "                    os.path.join(dirpath, file),\n                    path,\n", 'expect': 'C19.H3', 'note': 'round 12'},
    {'id': 'iter_uses_the_repeating_walk', 'file': 'filesys.py', 'find': "        \"\"\"Iteration yields each file.\"\"\"\n        return self.walk_folder('')", 'replace': "        \"\"\"Iteration yields each file.\"\"\"\n        return self.walk_folder_repeat('') if hasattr(self, 'walk_folder_repeat') else self.walk_folder('')", 'expect': 'C19.H4', 'note': 'round 12'},
    {'id': 'zip_open_by_stored_name', 'file': 'filesys.py', 'find': "            info = self._get_data(name)\n        else:\n            name = name.replace('\\\\', '/')", 'replace': "            info = self.zip.getinfo(self._get_data(name).filename)\n        else:\n            name = name.replace('\\\\', '/')", 'expect': 'C19.H6', 'note': 'round 11'},
    {'id': 'zip_walk_of_everything_from_infolist', 'file': 'filesys.py', 'find': "        if folder and not folder.endswith('/'):\n            # Only match whole folder names.\n            folder += '/'\n        for filename, fileinfo in self._name_to_info.items():", 'replace': "        if not folder:\n            for fileinfo in self.zip.infolist():\n                if not fileinfo.is_dir():\n                    yield File(self, fileinfo.filename, fileinfo)\n            return\n        if folder and not folder.endswith('/'):\n            # Only match whole folder names.\n            folder += '/'\n        for filename, fileinfo in self._name_to_info.items():", 'expect': 'C19.H3'},
    {'id': 'chain_walk_unprefixed_member_names_untouched', 'file': 'filesys.py', 'find': "            full_folder = os.path.join(prefix, folder).replace('\\\\', '/')\n            # The prefix to strip again.", 'replace': "            full_folder = os.path.join(prefix, folder).replace('\\\\', '/')\n            if not prefix:\n                for file in sys.walk_folder(full_folder):\n                    yield File(self, file.path.replace('\\\\', '/'), file)\n                continue\n            # The prefix to strip again.", 'expect': 'C19.H4'},
    {'id': 'raw_walk_by_glob', 'file': 'filesys.py', 'find': "        for dirpath, dirnames, filenames in os.walk(path):\n            for file in filenames:\n                rel_path = os.path.relpath(\n                    os.path.join(dirpath, file),\n                    self.path,\n                ).replace('\\\\', '/')\n                yield File(self, rel_path, rel_path)", 'replace': "        import glob\n        for name in glob.iglob('**', root_dir=path, recursive=True):\n            if os.path.isfile(os.path.join(path, name)):\n                rel_path = os.path.relpath(os.path.join(path, name), self.path).replace('\\\\', '/')\n                yield File(self, rel_path, rel_path)", 'expect': 'C19.H2'},
    {'id': 'chain_walk_last_member_wins', 'file': 'filesys.py', 'find': "        done: set[str] = set()\n        for file in self.walk_folder_repeat(folder):\n            folded = file.path.casefold()\n            if folded in done:\n                continue\n            done.add(folded)\n            yield file\n", 'replace': "        found = {}\n        for file in self.walk_folder_repeat(folder):\n            found[file.path.casefold()] = file\n        yield from found.values()\n", 'expect': 'C19.H4'},
    {'id': 'ok_chain_walk_setdefault', 'file': 'filesys.py', 'find': "        done: set[str] = set()\n        for file in self.walk_folder_repeat(folder):\n            folded = file.path.casefold()\n            if folded in done:\n                continue\n            done.add(folded)\n            yield file\n", 'replace': "        found = {}\n        for file in self.walk_folder_repeat(folder):\n            found.setdefault(file.path.casefold(), file)\n        yield from found.values()\n", 'expect': None, 'note': 'negative control: mapping form that keeps the first'},
    {'id': 'raw_walk_onerror_raises', 'file': 'filesys.py', 'find': "        for dirpath, dirnames, filenames in os.walk(path):", 'replace': "        def fail(exc: OSError) -> None:\n            raise exc\n        for dirpath, dirnames, filenames in os.walk(path, onerror=fail):", 'expect': 'C19.H2'},
    {'id': 'ok_raw_walk_onerror_none', 'file': 'filesys.py', 'find': "        for dirpath, dirnames, filenames in os.walk(path):", 'replace': "        for dirpath, dirnames, filenames in os.walk(path, onerror=None):", 'expect': None},
    {'id': 'zip_lookup_strips_leading_dots', 'file': 'filesys.py', 'find': "    def _get_file(self, name: str) -> File[Self]:\n        name = name.replace('\\\\', '/')\n        try:\n            info = self._name_to_info[name.casefold()]", 'replace': "    def _get_file(self, name: str) -> File[Self]:\n        name = name.replace('\\\\', '/').lstrip('./')\n        try:\n            info = self._name_to_info[name.casefold()]", 'expect': 'C19.H1'},
    {'id': 'zip_index_skips_empty_files', 'file': 'filesys.py', 'find': "            if not info.filename.endswith('/')\n", 'replace': "            if info.file_size and not info.filename.endswith('/')\n", 'expect': 'C19.H1'},
    {'id': 'add_sys_priority_position_one', 'file': 'filesys.py', 'find': "        if priority:\n            self.systems.insert(0, (sys, prefix))\n        else:\n            self.systems.append((sys, prefix))", 'replace': "        self.systems.insert(1 if priority else len(self.systems), (sys, prefix))", 'expect': 'C19.H4'},
    {'id': 'ok_add_sys_single_insert', 'file': 'filesys.py', 'find': "        if priority:\n            self.systems.insert(0, (sys, prefix))\n        else:\n            self.systems.append((sys, prefix))", 'replace': "        position = 0 if priority else len(self.systems)\n        self.systems.insert(position, (sys, prefix))", 'expect': None},
    {'id': 'add_sys_skips_present_member', 'file': 'filesys.py', 'find': "        if priority:\n            self.systems.insert(0, (sys, prefix))", 'replace': "        if (sys, prefix) in self.systems:\n            return\n        if priority:\n            self.systems.insert(0, (sys, prefix))", 'expect': 'C19.H4'},
    {'id': 'ok_add_sys_pair_in_local', 'file': 'filesys.py', 'find': "        if priority:\n            self.systems.insert(0, (sys, prefix))\n        else:\n            self.systems.append((sys, prefix))", 'replace': "        entry = (sys, prefix)\n        if priority:\n            self.systems.insert(0, entry)\n        else:\n            self.systems.append(entry)", 'expect': None},
    {'id': 'raw_exists_accepts_folders', 'file': 'filesys.py', 'find': "        return os.path.isfile(self._resolve_path(name))", 'replace': "        return os.path.exists(self._resolve_path(name))", 'expect': 'C19.H5'},
    {'id': 'chain_memo_never_dropped', 'file': 'filesys.py', 'find': "        \"\"\"Search for a file on each filesystem in turn.\"\"\"\n", 'replace': "        \"\"\"Search for a file on each filesystem in turn.\"\"\"\n        try:\n            return self._located[name]\n        except KeyError:\n            pass\n", 'extra': [{'file': 'filesys.py', 'find': "        super().__init__('')\n        self.systems = []\n", 'replace': "        super().__init__('')\n        self.systems = []\n        self._located = {}\n"}, {'file': 'filesys.py', 'find': "            return File(self, full_name, file_info)\n", 'replace': "            self._located[name] = File(self, full_name, file_info)\n            return self._located[name]\n"}], 'expect': 'C19.H4'},
    {'id': 'vpk_exists_asks_archive', 'file': 'filesys.py', 'find': "        return name.casefold().replace('\\\\', '/') in self._name_to_file\n", 'replace': "        return name.casefold().replace('\\\\', '/') in self.vpk\n", 'expect': 'C19.H1'},
    {'id': 'add_sys_folds_prefix', 'file': 'filesys.py', 'find': "        if priority:\n            self.systems.insert(0, (sys, prefix))", 'replace': "        prefix = prefix.casefold()\n        if priority:\n            self.systems.insert(0, (sys, prefix))", 'expect': 'C19.H4'},
    {'id': 'ok_add_sys_normalises_slashes', 'file': 'filesys.py', 'find': "        if priority:\n            self.systems.insert(0, (sys, prefix))", 'replace': "        prefix = prefix.replace('\\\\', '/')\n        if priority:\n            self.systems.insert(0, (sys, prefix))", 'expect': None},
    {'id': 'chain_walk_strips_prefix_with_relpath', 'file': 'filesys.py', 'find': "                if norm_prefix and start.casefold() == norm_prefix.casefold() + '/':\n                    rel_path = path[len(start):]\n                else:\n                    rel_path = os.path.relpath(path, prefix).replace('\\\\', '/')\n", 'replace': "                rel_path = os.path.relpath(path, prefix).replace('\\\\', '/')\n", 'expect': 'C19.H4'},
    {'id': 'chain_prefix_glued_with_slash', 'file': 'filesys.py', 'find': "            full_name = os.path.join(prefix, name).replace('\\\\', '/')", 'replace': "            full_name = (f'{prefix}/{name}' if prefix else name).replace('\\\\', '/')", 'expect': 'C19.H4'},
    {'id': 'chain_exists_carries_prefix', 'file': 'filesys.py', 'find': "    def _get_file(self, name: str) -> File[Self]:\n        \"\"\"Search for a file on each filesystem in turn.\"\"\"", 'replace': "    def _file_exists(self, name: str) -> bool:\n        for sys, prefix in self.systems:\n            if prefix:\n                name = os.path.join(prefix, name).replace('\\\\', '/')\n            if sys._file_exists(name):\n                return True\n        return False\n\n    def _get_file(self, name: str) -> File[Self]:\n        \"\"\"Search for a file on each filesystem in turn.\"\"\"", 'expect': 'C19.H4'},
    {'id': 'chain_exists_fresh_name', 'file': 'filesys.py', 'find': "    def _get_file(self, name: str) -> File[Self]:\n        \"\"\"Search for a file on each filesystem in turn.\"\"\"", 'replace': "    def _file_exists(self, name: str) -> bool:\n        for sys, prefix in self.systems:\n            full = os.path.join(prefix, name).replace('\\\\', '/')\n            if sys._file_exists(full):\n                return True\n        return False\n\n    def _get_file(self, name: str) -> File[Self]:\n        \"\"\"Search for a file on each filesystem in turn.\"\"\"", 'expect': None},
    {'id': 'chain_lookup_without_prefix', 'file': 'filesys.py', 'find': "                file_info = sys._get_file(full_name)", 'replace': "                file_info = sys._get_file(name)", 'expect': 'C19.H4'},
    {'id': 'zip_lookup_unfolded', 'file': 'filesys.py', 'find': "        return name.replace('\\\\', '/').casefold() in self._name_to_info", 'replace': "        return name.replace('\\\\', '/') in self._name_to_info", 'expect': 'C19.H1'},
    {'id': 'vpk_index_keeps_backslashes', 'file': 'filesys.py', 'find': "            file.filename.replace('\\\\', '/').casefold(): file", 'replace': "            file.filename.casefold(): file", 'expect': 'C19.H1'},
    {'id': 'virtual_walk_tests_original_name', 'file': 'filesys.py', 'find': "        for key, (filename, data) in self._mapping.items():\n            if key.startswith(folder):", 'replace': "        for key, (filename, data) in self._mapping.items():\n            if filename.startswith(folder):", 'expect': 'C19.H1'},
    {'id': 'zip_walk_raw_prefix', 'file': 'filesys.py', 'find': "        folder = folder.replace('\\\\', '/').casefold()\n        if folder and not folder.endswith('/'):\n            # Only match whole folder names.\n            folder += '/'\n        for filename, fileinfo in self._name_to_info.items():", 'replace': "        folder = folder.replace('\\\\', '/').casefold()\n        for filename, fileinfo in self._name_to_info.items():", 'expect': 'C19.H2'},
    {'id': 'virtual_empty_folder_dot', 'file': 'filesys.py', 'find': "        if folder == '.':\n            # normpath('') produces this, it should match everything.\n            folder = ''\n        elif not folder.endswith('/'):", 'replace': "        if not folder.endswith('/'):", 'expect': 'C19.H2'},
    {'id': 'vpk_walk_unfolded_folder', 'file': 'filesys.py', 'find': "        # All VPK files use forward slashes.\n        folder = folder.replace('\\\\', '/').casefold()", 'replace': "        # All VPK files use forward slashes.\n        folder = folder.replace('\\\\', '/')", 'expect': 'C19.H1'},
    {'id': 'chain_priority_appends', 'file': 'filesys.py', 'find': "            self.systems.insert(0, (sys, prefix))", 'replace': "            self.systems.insert(len(self.systems), (sys, prefix))", 'expect': 'C19.H4'},
    {'id': 'chain_dedupe_case_sensitive', 'file': 'filesys.py', 'find': "            folded = file.path.casefold()\n            if folded in done:", 'replace': "            folded = file.path\n            if folded in done:", 'expect': 'C19.H4'},
]
