"""E5 - ownership / effect helpers (intra-procedural, syntax directed).

`borrowed_names` computes, by a forward pass over the statements of one function, the set of local names that
may alias (part of) one of the given root objects: assignment from an expression rooted at a root or at a
borrowed name (attribute / subscript / iteration / plain copy of the reference), loop variables over such
expressions, `enumerate/zip/reversed/sorted/iter` wrappers, tuple unpacking, walrus.  A name assigned from a
*fresh* expression (constructor call, `.copy()`, comprehension, literal) is not borrowed.

`mutations` lists the constructs that mutate an object reachable from a root or borrowed name:
attribute/subscript stores, augmented assignment, `del`, and calls of mutating container methods.
"""
from __future__ import annotations

import ast
from typing import Callable, Dict, Iterable, Iterator, List, Optional, Sequence, Set, Tuple

from .model import dotted, walk_no_nested

MUTATING_METHODS = {
    'append', 'extend', 'insert', 'pop', 'remove', 'clear', 'sort', 'reverse', 'update', 'add', 'discard',
    'setdefault', 'popitem', '__setitem__', '__delitem__', 'appendleft', 'popleft', 'write', 'writelines',
    'intersection_update', 'difference_update', 'symmetric_difference_update', 'frombytes', 'fromlist',
}
PASS_THROUGH_CALLS = {'enumerate', 'zip', 'reversed', 'iter', 'sorted', 'list', 'tuple', 'next', 'cast', 'filter'}
# list()/tuple()/sorted() build a fresh container but its *elements* are still the borrowed objects, so a loop
# variable over them is borrowed; the container itself is fresh (handled by `fresh_container`).
FRESH_CONTAINER_CALLS = {'list', 'tuple', 'sorted', 'set', 'frozenset', 'dict'}


def root_of(node: ast.AST) -> Optional[str]:
    """The base Name of an attribute/subscript/call-receiver chain."""
    while True:
        if isinstance(node, ast.Attribute):
            node = node.value
        elif isinstance(node, ast.Subscript):
            node = node.value
        elif isinstance(node, ast.Starred):
            node = node.value
        else:
            break
    if isinstance(node, ast.Name):
        return node.id
    return None


def _aliases_of_expr(expr: ast.AST, borrowed: Set[str], elements: bool) -> bool:
    """May the value of expr be (an interior reference of) a borrowed object?"""
    if isinstance(expr, (ast.Attribute, ast.Subscript, ast.Name, ast.Starred)):
        r = root_of(expr)
        return r is not None and r in borrowed
    if isinstance(expr, ast.NamedExpr):
        return _aliases_of_expr(expr.value, borrowed, elements)
    if isinstance(expr, ast.IfExp):
        return _aliases_of_expr(expr.body, borrowed, elements) or _aliases_of_expr(expr.orelse, borrowed, elements)
    if isinstance(expr, ast.BoolOp):
        return any(_aliases_of_expr(v, borrowed, elements) for v in expr.values)
    if isinstance(expr, (ast.Tuple, ast.List)):
        return any(_aliases_of_expr(e, borrowed, elements) for e in expr.elts)
    if isinstance(expr, ast.Call):
        fn = dotted(expr.func)
        short = fn.split('.')[-1] if fn else None
        if short in PASS_THROUGH_CALLS and (elements or short not in FRESH_CONTAINER_CALLS):
            return any(_aliases_of_expr(a, borrowed, elements) for a in expr.args)
        if isinstance(expr.func, ast.Attribute) and expr.func.attr in ('items', 'values', 'keys', 'get', '__iter__', 'find_all',
                                                                        'find_children', 'find_key', 'find_block', 'iter_tree'):
            return _aliases_of_expr(expr.func.value, borrowed, elements)
        return False
    return False


def _bind_targets(t: ast.AST) -> Iterator[str]:
    if isinstance(t, ast.Name):
        yield t.id
    elif isinstance(t, (ast.Tuple, ast.List)):
        for e in t.elts:
            yield from _bind_targets(e)
    elif isinstance(t, ast.Starred):
        yield from _bind_targets(t.value)


def borrowed_names(fn: ast.AST, roots: Iterable[str]) -> Set[str]:
    """Fixed point of the may-alias relation for local names (flow-insensitive: sound for 'may alias')."""
    borrowed: Set[str] = set(roots)
    changed = True
    while changed:
        changed = False
        for n in walk_no_nested(fn):
            tgts: List[ast.AST] = []
            src: Optional[ast.AST] = None
            elements = False
            if isinstance(n, ast.Assign):
                tgts, src = list(n.targets), n.value
            elif isinstance(n, ast.AnnAssign) and n.value is not None:
                tgts, src = [n.target], n.value
            elif isinstance(n, ast.NamedExpr):
                tgts, src = [n.target], n.value
            elif isinstance(n, (ast.For, ast.AsyncFor)):
                tgts, src, elements = [n.target], n.iter, True
            elif isinstance(n, ast.comprehension):
                tgts, src, elements = [n.target], n.iter, True
            elif isinstance(n, ast.withitem) and n.optional_vars is not None:
                tgts, src = [n.optional_vars], n.context_expr
            if src is None:
                continue
            # positional binding through zip(): `for a, b in zip(X, Y)` - a aliases X's elements, b aliases Y's
            if elements and isinstance(src, ast.Call) and dotted(src.func) == 'zip' and len(tgts) == 1 \
                    and isinstance(tgts[0], (ast.Tuple, ast.List)) and len(tgts[0].elts) == len(src.args):
                for el, arg in zip(tgts[0].elts, src.args):
                    if _aliases_of_expr(arg, borrowed, True):
                        for name in _bind_targets(el):
                            if name not in borrowed:
                                borrowed.add(name)
                                changed = True
                continue
            if _aliases_of_expr(src, borrowed, elements):
                for t in tgts:
                    for name in _bind_targets(t):
                        if name not in borrowed:
                            borrowed.add(name)
                            changed = True
    return borrowed


class Mutation:
    __slots__ = ('node', 'kind', 'root', 'target')

    def __init__(self, node: ast.AST, kind: str, root: str, target: str) -> None:
        self.node, self.kind, self.root, self.target = node, kind, root, target


def mutations(fn: ast.AST, roots: Iterable[str], extra_mutators: Optional[Set[str]] = None,
              rebinding_ok: bool = True) -> List[Mutation]:
    """Constructs in fn that mutate something reachable from the roots (or from names that may alias them)."""
    b = borrowed_names(fn, roots)
    mutators = MUTATING_METHODS | (extra_mutators or set())
    out: List[Mutation] = []

    def store(t: ast.AST, node: ast.AST, kind: str) -> None:
        if isinstance(t, (ast.Tuple, ast.List)):
            for e in t.elts:
                store(e, node, kind)
            return
        if isinstance(t, ast.Starred):
            store(t.value, node, kind)
            return
        if isinstance(t, (ast.Attribute, ast.Subscript)):
            r = root_of(t)
            if r in b:
                out.append(Mutation(node, kind, r, ast.unparse(t)))

    for n in walk_no_nested(fn):
        if isinstance(n, ast.Assign):
            for t in n.targets:
                store(t, n, 'store')
        elif isinstance(n, ast.AnnAssign) and n.value is not None:
            store(n.target, n, 'store')
        elif isinstance(n, ast.AugAssign):
            if isinstance(n.target, ast.Name):
                # x += ... on a borrowed name mutates in place for mutable types
                if n.target.id in b:
                    out.append(Mutation(n, 'augassign-name', n.target.id, n.target.id))
            else:
                store(n.target, n, 'augassign')
        elif isinstance(n, ast.Delete):
            for t in n.targets:
                store(t, n, 'del')
        elif isinstance(n, (ast.For, ast.AsyncFor)):
            store(n.target, n, 'for-target')
        elif isinstance(n, ast.Call) and isinstance(n.func, ast.Attribute) and n.func.attr in mutators:
            r = root_of(n.func.value)
            if r in b:
                out.append(Mutation(n, 'call:' + n.func.attr, r, ast.unparse(n.func)))
    return out


def is_fresh_expr(expr: ast.AST, fresh_calls: Optional[Set[str]] = None) -> bool:
    """Syntactically fresh value: literal container, comprehension, constructor-looking call, .copy()."""
    if isinstance(expr, (ast.List, ast.Dict, ast.Set, ast.ListComp, ast.DictComp, ast.SetComp, ast.GeneratorExp, ast.Constant,
                         ast.JoinedStr, ast.Tuple)):
        return True
    if isinstance(expr, ast.Call):
        fn = dotted(expr.func)
        if fn is None:
            return False
        short = fn.split('.')[-1]
        if fresh_calls and (fn in fresh_calls or short in fresh_calls):
            return True
        if short in ('copy', '__copy__', 'deepcopy') or short in FRESH_CONTAINER_CALLS:
            return True
        if short[:1].isupper():
            return True
    return False
