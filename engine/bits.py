"""E8 - bit-provenance interpreter for per-pixel codec functions.

Every byte value is a vector of 16 bit *sources* (LSB first): the constants 0 / 1, a bit of an input byte
('P' | 'D', byte offset within the pixel / packed record, bit index), or TOP (arithmetic, data-dependent branch).
The interpreter runs a codec body once, symbolically, for a generic pixel `offset`:

  per-pixel loop style   pixels[4*offset + k] = expr(data[S*offset + j], ...)         (Python and Cython)
  strided-slice style    view_pix[k::4] = data[j::S];  view_pix[3::4] = b'\\xff' * n    (Python)

and returns, for every byte the function stores, where each of its bits comes from.  Helper functions of the same
module (upsample, compress565, decomp565) are inlined.  Anything outside these idioms is an AnalysisError (fail closed),
except statement-level `if` on pixel data, which marks the stores under it TOP ("not decided": bluescreen formats).
"""
from __future__ import annotations

import ast
from typing import Any, Callable, Dict, List, Optional, Sequence, Tuple

from .model import AnalysisError, dotted

W = 16
TOP = 'TOP'
Src = Any


class BV:
    __slots__ = ('bits',)

    def __init__(self, bits: Sequence[Src]) -> None:
        self.bits = tuple(bits)

    @staticmethod
    def const(n: int) -> 'BV':
        if n < 0 or n >= 1 << W:
            raise AnalysisError(f'constant {n} outside the {W}-bit domain')
        return BV([(n >> i) & 1 for i in range(W)])

    @staticmethod
    def byte(arr: str, off: int) -> 'BV':
        return BV([(arr, off, i) for i in range(8)] + [0] * (W - 8))

    @staticmethod
    def top() -> 'BV':
        return BV([TOP] * W)

    def is_const(self) -> bool:
        return all(b in (0, 1) for b in self.bits)

    def value(self) -> int:
        return sum(b << i for i, b in enumerate(self.bits))

    def __eq__(self, o: object) -> bool:
        return isinstance(o, BV) and self.bits == o.bits

    def __hash__(self) -> int:
        return hash(self.bits)

    def __repr__(self) -> str:
        def s(b: Src) -> str:
            return str(b) if b in (0, 1) else ('?' if b == TOP else f'{b[0]}{b[1]}.{b[2]}')
        return '[' + ' '.join(s(b) for b in reversed(self.bits[:8])) + ']'


def b_or(a: Src, b: Src) -> Src:
    if a == 1 or b == 1:
        return 1
    if a == 0:
        return b
    if b == 0:
        return a
    if a == b:
        return a
    return TOP


def b_and(a: Src, b: Src) -> Src:
    if a == 0 or b == 0:
        return 0
    if a == 1:
        return b
    if b == 1:
        return a
    if a == b:
        return a
    return TOP


def v_or(a: BV, b: BV) -> BV:
    return BV([b_or(x, y) for x, y in zip(a.bits, b.bits)])


def v_and(a: BV, b: BV) -> BV:
    return BV([b_and(x, y) for x, y in zip(a.bits, b.bits)])


def v_shl(a: BV, n: int) -> BV:
    return BV(([0] * n + list(a.bits))[:W])


def v_shr(a: BV, n: int) -> BV:
    return BV(list(a.bits[n:]) + [0] * n)


class Codec:
    """Result of interpreting one codec function."""

    def __init__(self) -> None:
        self.out: Dict[Tuple[str, int], BV] = {}
        self.stride: Dict[str, int] = {}
        self.undecided: List[str] = []


class Interp:
    def __init__(self, helpers: Dict[str, Tuple[List[str], List[ast.stmt]]], consts: Dict[str, int], arrays: Tuple[str, str] = ('pixels', 'data')) -> None:
        self.helpers = helpers
        self.consts = dict(consts)
        self.arrays = arrays
        self.alias: Dict[str, str] = {}
        self.env: Dict[str, Any] = {}
        self.res = Codec()
        self.cond_depth = 0
        self.loop_var: Optional[str] = None

    # ---- index handling ---------------------------------------------------------------------------------------------------
    def const_int(self, e: ast.AST) -> Optional[int]:
        if isinstance(e, ast.Constant) and isinstance(e.value, int) and not isinstance(e.value, bool):
            return e.value
        if isinstance(e, ast.Name) and e.id in self.consts:
            return self.consts[e.id]
        if isinstance(e, ast.Name) and isinstance(self.env.get(e.id), BV) and self.env[e.id].is_const():
            return self.env[e.id].value()
        if isinstance(e, ast.BinOp):
            l, r = self.const_int(e.left), self.const_int(e.right)
            if l is None or r is None:
                return None
            if isinstance(e.op, ast.Add):
                return l + r
            if isinstance(e.op, ast.Sub):
                return l - r
            if isinstance(e.op, ast.Mult):
                return l * r
        return None

    def index(self, e: ast.AST) -> Tuple[int, int]:
        """`S*offset + k` -> (S, k)"""
        lv = self.loop_var
        if isinstance(e, ast.Name) and e.id == lv:
            return 1, 0
        if isinstance(e, ast.BinOp) and isinstance(e.op, ast.Mult):
            for a, b in ((e.left, e.right), (e.right, e.left)):
                s = self.const_int(a)
                if s is not None and isinstance(b, ast.Name) and b.id == lv:
                    return s, 0
        if isinstance(e, ast.BinOp) and isinstance(e.op, ast.Add):
            for a, b in ((e.left, e.right), (e.right, e.left)):
                k = self.const_int(b)
                if k is not None:
                    try:
                        s, k0 = self.index(a)
                    except AnalysisError:
                        continue
                    return s, k0 + k
        raise AnalysisError(f'line {getattr(e, "lineno", 0)}: index `{ast.unparse(e)}` is not of the form S*offset + k')

    def array_of(self, e: ast.AST) -> Optional[str]:
        if isinstance(e, ast.Name):
            if e.id in self.arrays:
                return e.id
            return self.alias.get(e.id)
        if isinstance(e, ast.Call) and dotted(e.func) == 'memoryview' and len(e.args) == 1:
            return self.array_of(e.args[0])
        return None

    def note_stride(self, arr: str, s: int, node: ast.AST) -> None:
        prev = self.res.stride.setdefault(arr, s)
        if prev != s:
            raise AnalysisError(f'line {getattr(node, "lineno", 0)}: {arr} is accessed with strides {prev} and {s}')

    # ---- expressions ------------------------------------------------------------------------------------------------------
    def ev(self, e: ast.AST) -> Any:
        c = self.const_int(e)
        if c is not None:
            return BV.const(c)
        if isinstance(e, ast.Name):
            if e.id in self.env:
                return self.env[e.id]
            raise AnalysisError(f'line {e.lineno}: unknown name {e.id}')
        if isinstance(e, ast.Subscript) and not isinstance(e.slice, ast.Slice):
            arr = self.array_of(e.value)
            if arr is not None:
                s, k = self.index(e.slice)
                self.note_stride(arr, s, e)
                return BV.byte('P' if arr == self.arrays[0] else 'D', k)
            base = self.ev(e.value)
            idx = self.const_int(e.slice)
            if isinstance(base, tuple) and idx is not None:
                return base[idx]
            raise AnalysisError(f'line {e.lineno}: subscript `{ast.unparse(e)}` not recognised')
        if isinstance(e, ast.Attribute):
            base = self.ev(e.value)
            if isinstance(base, dict) and e.attr in base:
                return base[e.attr]
            raise AnalysisError(f'line {e.lineno}: attribute `{ast.unparse(e)}` not recognised')
        if isinstance(e, ast.BinOp):
            if isinstance(e.op, (ast.LShift, ast.RShift)):
                n = self.const_int(e.right)
                if n is None:
                    raise AnalysisError(f'line {e.lineno}: shift by a non-constant')
                a = self.ev(e.left)
                return v_shl(a, n) if isinstance(e.op, ast.LShift) else v_shr(a, n)
            if isinstance(e.op, ast.BitOr):
                return v_or(self.ev(e.left), self.ev(e.right))
            if isinstance(e.op, ast.BitAnd):
                return v_and(self.ev(e.left), self.ev(e.right))
            if isinstance(e.op, (ast.Add, ast.Sub, ast.Mult, ast.FloorDiv, ast.Div, ast.Mod)):
                self.ev(e.left)
                self.ev(e.right)
                return BV.top()
        if isinstance(e, ast.IfExp):
            t = self.ev(e.test)
            a, b = self.const_int(e.body), self.const_int(e.orelse)
            if isinstance(t, BV) and a is not None and b is not None:
                live = [x for x in t.bits if x != 0]
                if len(live) == 1 and b == 0:
                    return BV([live[0] if (a >> i) & 1 else 0 for i in range(W)])
            return BV.top()
        if isinstance(e, ast.Tuple):
            return tuple(self.ev(x) for x in e.elts)
        if isinstance(e, ast.Dict):
            return {k.value: self.ev(v) for k, v in zip(e.keys, e.values) if isinstance(k, ast.Constant)}
        if isinstance(e, ast.Call):
            name = dotted(e.func)
            if name in self.helpers:
                params, body = self.helpers[name]
                if len(params) != len(e.args):
                    raise AnalysisError(f'line {e.lineno}: helper {name} called with {len(e.args)} arguments')
                sub = Interp(self.helpers, self.consts, self.arrays)
                sub.env = {p: self.ev(a) for p, a in zip(params, e.args)}
                for st in body:
                    if isinstance(st, ast.Expr) and isinstance(st.value, ast.Constant):
                        continue
                    if isinstance(st, ast.Return) and st.value is not None:
                        return sub.ev(st.value)
                    sub.stmt(st)
                raise AnalysisError(f'helper {name} has no return')
            if name in ('int', 'min', 'max', 'round', 'abs'):
                for a in e.args:
                    self.ev(a)
                return BV.top()
        if isinstance(e, (ast.Compare, ast.BoolOp, ast.UnaryOp)):
            return BV.top()
        raise AnalysisError(f'line {getattr(e, "lineno", 0)}: expression `{ast.unparse(e)[:60]}` not handled by the bit interpreter')

    # ---- stores -----------------------------------------------------------------------------------------------------------
    def store(self, tgt: ast.AST, val: Any) -> None:
        if isinstance(tgt, (ast.Tuple, ast.List)):
            if not isinstance(val, tuple) or len(val) != len(tgt.elts):
                if isinstance(val, BV) and val == BV.top():
                    for t in tgt.elts:
                        self.store(t, BV.top())
                    return
                raise AnalysisError(f'line {tgt.lineno}: cannot unpack into `{ast.unparse(tgt)}`')
            for t, v in zip(tgt.elts, val):
                self.store(t, v)
            return
        if isinstance(tgt, ast.Name):
            self.env[tgt.id] = val
            return
        if isinstance(tgt, ast.Subscript) and not isinstance(tgt.slice, ast.Slice):
            arr = self.array_of(tgt.value)
            if arr is None:
                raise AnalysisError(f'line {tgt.lineno}: store to `{ast.unparse(tgt)}`')
            s, k = self.index(tgt.slice)
            self.note_stride(arr, s, tgt)
            if not isinstance(val, BV):
                raise AnalysisError(f'line {tgt.lineno}: non-scalar stored to a byte')
            if self.cond_depth:
                val = BV.top()
            self.res.out[('P' if arr == self.arrays[0] else 'D', k)] = val
            return
        raise AnalysisError(f'line {getattr(tgt, "lineno", 0)}: store target `{ast.unparse(tgt)}` not recognised')

    # ---- slices -----------------------------------------------------------------------------------------------------------
    def slice_of(self, e: ast.AST) -> Optional[Tuple[str, int, int]]:
        """array[k::S] / array[:] / array -> (array, k, S)"""
        arr = self.array_of(e)
        if arr is not None:
            return arr, 0, 1
        if isinstance(e, ast.Subscript) and isinstance(e.slice, ast.Slice):
            arr = self.array_of(e.value)
            if arr is None:
                return None
            sl = e.slice
            if sl.upper is not None:
                raise AnalysisError(f'line {e.lineno}: bounded slice `{ast.unparse(e)}`')
            k = 0 if sl.lower is None else self.const_int(sl.lower)
            s = 1 if sl.step is None else self.const_int(sl.step)
            if k is None or s is None:
                raise AnalysisError(f'line {e.lineno}: slice `{ast.unparse(e)}` has non-constant bounds')
            return arr, k, s
        return None

    def fill_value(self, e: ast.AST) -> Optional[bytes]:
        if isinstance(e, ast.BinOp) and isinstance(e.op, ast.Mult) and isinstance(e.left, ast.Constant) and isinstance(e.left.value, bytes):
            return e.left.value
        if isinstance(e, ast.Call) and dotted(e.func) == 'bytes' and len(e.args) == 1 and not isinstance(e.args[0], ast.Constant):
            return b'\0'
        return None

    def slice_assign(self, targets: List[ast.AST], value: ast.AST, node: ast.AST) -> bool:
        tsl = [self.slice_of(t) for t in targets]
        if any(t is None for t in tsl):
            return False
        src = self.slice_of(value)
        fill = self.fill_value(value) if src is None else None
        if src is None and fill is None:
            raise AnalysisError(f'line {node.lineno}: slice assignment from `{ast.unparse(value)[:50]}` not recognised')
        for arr, k, s in tsl:          # type: ignore[misc]
            tag = 'P' if arr == self.arrays[0] else 'D'
            if fill is not None:
                if s == 1 and k == 0:
                    # whole-array fill with a repeating pattern: the record stride must be known already or equals len(fill)
                    rec = self.res.stride.get(arr, len(fill) if len(fill) > 1 else (4 if arr == self.arrays[0] else None))     # pixels are RGBA records
                    if rec is None:
                        raise AnalysisError(f'line {node.lineno}: whole-array fill before the record size of {arr} is known')
                    for j in range(rec):
                        self.res.out[(tag, j)] = BV.const(fill[j % len(fill)])
                    self.res.stride.setdefault(arr, rec)
                else:
                    if len(fill) != 1:
                        raise AnalysisError(f'line {node.lineno}: strided fill with a multi-byte pattern')
                    self.note_stride(arr, s, node)
                    self.res.out[(tag, k)] = BV.const(fill[0])
                continue
            sarr, sk, ss = src          # type: ignore[misc]
            self.note_stride(arr, s, node)
            self.note_stride(sarr, ss, node)
            stag = 'P' if sarr == self.arrays[0] else 'D'
            if (stag, sk) in self.res.out and stag == tag:
                self.res.out[(tag, k)] = self.res.out[(stag, sk)]      # view_pix[1::4] = view_pix[0::4] (already loaded channel)
            else:
                self.res.out[(tag, k)] = BV.byte(stag, sk)
        return True

    # ---- statements ---------------------------------------------------------------------------------------------------------
    def stmt(self, st: ast.stmt) -> None:
        if isinstance(st, ast.Expr):
            if isinstance(st.value, ast.Constant):
                return
            raise AnalysisError(f'line {st.lineno}: expression statement `{ast.unparse(st)[:50]}`')
        if isinstance(st, ast.Assign):
            # view aliases
            if len(st.targets) == 1 and isinstance(st.targets[0], ast.Name):
                arr = self.array_of(st.value)
                if arr is not None:
                    self.alias[st.targets[0].id] = arr
                    return
            if any(isinstance(t, ast.Subscript) and isinstance(t.slice, ast.Slice) for t in st.targets):
                if not self.slice_assign(list(st.targets), st.value, st):
                    raise AnalysisError(f'line {st.lineno}: slice assignment `{ast.unparse(st)[:60]}` not recognised')
                return
            val = self.ev(st.value)
            for t in st.targets:
                self.store(t, val)
            return
        if isinstance(st, ast.AnnAssign):
            if st.value is not None:
                self.store(st.target, self.ev(st.value))
            return
        if isinstance(st, ast.For):
            it = st.iter
            if isinstance(it, ast.Call) and dotted(it.func) in ('range', 'prange') and isinstance(st.target, ast.Name):
                if self.loop_var is not None:
                    raise AnalysisError(f'line {st.lineno}: nested pixel loops')
                self.loop_var = st.target.id
                for s in st.body:
                    self.stmt(s)
                self.loop_var = None
                return
            # strided counters: `for k, src in enumerate(range(0, N, 4))` (src = 4*k) and `for d, s in zip(range(0, M, 2), range(0, N, 4))`
            # (d = 2*k, s = 4*k) are the plain pixel loop over k with the counters written as multiples of k
            def _stride(r: ast.AST) -> Optional[int]:
                if isinstance(r, ast.Call) and dotted(r.func) == 'range' and len(r.args) == 3 and isinstance(r.args[0], ast.Constant) and r.args[0].value == 0 \
                        and isinstance(r.args[2], ast.Constant) and isinstance(r.args[2].value, int) and r.args[2].value > 0:
                    return r.args[2].value
                if isinstance(r, ast.Call) and dotted(r.func) == 'range' and len(r.args) == 1:
                    return 1
                return None
            subst: Dict[str, int] = {}
            kname = None
            if isinstance(it, ast.Call) and dotted(it.func) == 'enumerate' and len(it.args) == 1 and isinstance(st.target, ast.Tuple) and len(st.target.elts) == 2 \
                    and all(isinstance(e_, ast.Name) for e_ in st.target.elts) and _stride(it.args[0]) is not None:
                kname = st.target.elts[0].id
                subst[st.target.elts[1].id] = _stride(it.args[0])          # type: ignore[assignment]
            elif isinstance(it, ast.Call) and dotted(it.func) == 'zip' and isinstance(st.target, ast.Tuple) and len(st.target.elts) == len(it.args) >= 2 \
                    and all(isinstance(e_, ast.Name) for e_ in st.target.elts) and all(_stride(a_) is not None for a_ in it.args):
                kname = '_pixel_index'
                for e_, a_ in zip(st.target.elts, it.args):
                    subst[e_.id] = _stride(a_)          # type: ignore[assignment]
            if kname is not None:
                if self.loop_var is not None:
                    raise AnalysisError(f'line {st.lineno}: nested pixel loops')
                import copy as _copy

                class _S(ast.NodeTransformer):
                    def visit_Name(self, n: ast.Name) -> ast.AST:      # noqa: N802
                        if n.id in subst and isinstance(n.ctx, ast.Load):
                            k_ = ast.Name(id=kname, ctx=ast.Load())
                            new_ = k_ if subst[n.id] == 1 else ast.BinOp(left=ast.Constant(value=subst[n.id]), op=ast.Mult(), right=k_)
                            return ast.fix_missing_locations(ast.copy_location(new_, n))
                        return n
                self.loop_var = kname
                for s_ in st.body:
                    self.stmt(_S().visit(_copy.deepcopy(s_)))
                self.loop_var = None
                return
            raise AnalysisError(f'line {st.lineno}: loop `{ast.unparse(st.iter)[:40]}` not recognised')
        if isinstance(st, ast.If):
            self.ev(st.test)
            self.cond_depth += 1
            self.res.undecided.append(f'line {st.lineno}: data-dependent branch `{ast.unparse(st.test)[:40]}`')
            for s in st.body + st.orelse:
                self.stmt(s)
            self.cond_depth -= 1
            return
        if isinstance(st, ast.Pass):
            return
        raise AnalysisError(f'line {st.lineno}: statement {type(st).__name__} not handled by the bit interpreter')


def run_codec(body: List[ast.stmt], helpers: Dict[str, Tuple[List[str], List[ast.stmt]]], consts: Dict[str, int], env: Optional[Dict[str, int]] = None) -> Codec:
    it = Interp(helpers, {**consts, **(env or {})})
    for st in body:
        it.stmt(st)
    return it.res


def compose(load: Codec, save: Codec) -> Dict[int, BV]:
    """load o save: every pixel channel the loader stores, expressed over the *input* pixel bits"""
    out: Dict[int, BV] = {}
    for (tag, k), bv in load.out.items():
        if tag != 'P':
            continue
        bits = []
        for b in bv.bits:
            if isinstance(b, tuple) and b[0] == 'D':
                src = save.out.get(('D', b[1]))
                bits.append(TOP if src is None else src.bits[b[2]])
            else:
                bits.append(b)
        out[k] = BV(bits)
    return out
