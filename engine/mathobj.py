"""Object-level abstract interpreter for the operator-dispatch methods of srctools.math (C04-A4, C05-G2, C09-P3).

Resolves the Python operator protocol statically (`@=` -> __imatmul__, NotImplemented falls back to __matmul__,
then the reflected method of the right operand) over the class table of math.py and interprets the selected
isinstance-arms with abstract objects:
    vec(class, 3 polynomials)   mat(class, 9 polynomials)   ang(class, symbolic id | to_angle(matrix))
`_mat_mul`, `_vec_rot` are applied through the bilinear forms extracted from their own bodies (engine.poly),
`from_angle` yields an opaque-but-consistent matrix FA[angle], `_to_angle` an opaque angle of a matrix.
Every abstract object remembers whether it *is* one of the operands (identity), so in-place mutation of an
operand - in particular of a frozen one - is observed exactly.
Anything outside the enumerated idioms raises AnalysisError (exit 2).
"""
from __future__ import annotations

import ast
from typing import Any, Dict, List, Optional, Sequence, Tuple

from .model import AnalysisError, Module, dotted, mro, resolve_method
from .poly import Poly

SLOTS = ['aa', 'ab', 'ac', 'ba', 'bb', 'bc', 'ca', 'cb', 'cc']
KIND_OF = {'Vec': 'vec', 'FrozenVec': 'vec', 'VecBase': 'vec', 'Angle': 'ang', 'FrozenAngle': 'ang', 'AngleBase': 'ang',
           'Matrix': 'mat', 'FrozenMatrix': 'mat', 'MatrixBase': 'mat', 'tuple': 'tuple'}
FROZEN = {'FrozenVec', 'FrozenAngle', 'FrozenMatrix', 'tuple'}


class Obj:
    def __init__(self, cls: str, data: Any, origin: str) -> None:
        self.cls, self.data, self.origin = cls, data, origin
        self.kind = KIND_OF[cls]
        self.mutations: List[str] = []

    def __repr__(self) -> str:
        return f'<{self.cls} {self.origin} {self.data!r}>'


class ClassRef:
    def __init__(self, name: str) -> None:
        self.name = name


class NotImpl:
    pass


NOTIMPL = NotImpl()


class _Return(Exception):
    def __init__(self, v: Any) -> None:
        self.v = v


class AngComp:
    """one component of an *input* angle: (angle key, 'P' | 'Y' | 'R')"""
    def __init__(self, key: str, axis: str, radians: bool = False) -> None:
        self.key, self.axis, self.radians = key, axis, radians


class NeedAssume(Exception):
    """an arm tests an angle component against zero: the driver re-runs the case once for each answer"""
    def __init__(self, key: Tuple[str, str]) -> None:
        self.key = key


ANG_AXES = {'pitch': 'P', 'yaw': 'Y', 'roll': 'R'}


def trig_sym(fn: str, comp: AngComp) -> Poly:
    return Poly.sym(f'{fn[0]}{comp.axis}[{comp.key}]')


def mat_input(name: str, cls: str) -> Obj:
    return Obj(cls, {s: Poly.sym(f'{name}_{s}') for s in SLOTS}, 'input:' + name)


def vec_input(name: str, cls: str) -> Obj:
    return Obj(cls, [Poly.sym(f'{name}_x'), Poly.sym(f'{name}_y'), Poly.sym(f'{name}_z')], 'input:' + name)


def ang_input(name: str, cls: str) -> Obj:
    return Obj(cls, ('angle', name), 'input:' + name)


def from_angle_entries(ang: Obj) -> Dict[str, Poly]:
    if ang.kind == 'ang':
        key = repr(ang.data)
    else:
        raise AnalysisError('from_angle of a non-angle')
    return {s: Poly.sym(f'FA[{key}]_{s}') for s in SLOTS}


class Dispatcher:
    def __init__(self, mod: Module, matmul_form: Dict[str, Poly], vecrot_form: List[Poly]) -> None:
        """matmul_form: result entry -> polynomial in S_xy (receiver) and O_xy (argument);
        vecrot_form: result comps in V_x,V_y,V_z and M_xy."""
        self.mod = mod
        self.matmul_form = matmul_form
        self.vecrot_form = vecrot_form
        self.aliases: Dict[str, str] = {}
        for st in mod.tree.body:
            if isinstance(st, (ast.Assign, ast.AnnAssign)):
                tgts = st.targets if isinstance(st, ast.Assign) else [st.target]
                val = st.value
                if val is not None and isinstance(val, ast.Name):
                    for t in tgts:
                        if isinstance(t, ast.Name) and t.id.startswith(('Py_', 'Cy_')) and val.id in KIND_OF:
                            self.aliases[t.id] = val.id
        self.trace: List[str] = []
        self.depth = 0
        self.assume: Dict[Tuple[str, str], bool] = {}      # (angle key, axis) -> "this component is zero" on the path being run
        self.used_trig = False

    # -- class helpers ---------------------------------------------------------------------------
    def cname(self, n: ast.AST) -> Optional[str]:
        d = dotted(n)
        if d is None:
            return None
        d = self.aliases.get(d, d)
        return d if d in KIND_OF else None

    def is_instance(self, obj: Any, clsname: str) -> bool:
        if not isinstance(obj, Obj):
            return False
        if obj.cls == 'tuple':
            return clsname == 'tuple'
        return clsname in mro(self.mod, obj.cls)

    # -- primitives ------------------------------------------------------------------------------
    def prim_mat_mul(self, recv: Obj, arg: Obj) -> None:
        if recv.kind != 'mat' or arg.kind != 'mat':
            raise AnalysisError('_mat_mul applied to non-matrices')
        mp = {f'S_{s}': recv.data[s] for s in SLOTS}
        mp.update({f'O_{s}': arg.data[s] for s in SLOTS})
        recv.data = {s: self.matmul_form[s].subst(mp) for s in SLOTS}
        recv.mutations.append('_mat_mul')

    def prim_vec_rot(self, mat: Obj, vec: Obj) -> None:
        if mat.kind != 'mat' or vec.kind != 'vec':
            raise AnalysisError('_vec_rot applied to wrong kinds')
        mp = {f'M_{s}': mat.data[s] for s in SLOTS}
        mp.update({'V_x': vec.data[0], 'V_y': vec.data[1], 'V_z': vec.data[2]})
        vec.data = [p.subst(mp) for p in self.vecrot_form]
        vec.mutations.append('_vec_rot')

    def prim_to_angle(self, mat: Obj, target: Obj) -> Obj:
        if mat.kind != 'mat' or target.kind != 'ang':
            raise AnalysisError('_to_angle applied to wrong kinds')
        target.data = ('to_angle', tuple(sorted((s, repr(p)) for s, p in mat.data.items())))
        target.mat = dict(mat.data)       # type: ignore[attr-defined]
        target.mutations.append('_to_angle')
        return target

    # -- operator protocol ---------------------------------------------------------------------------
    def binop(self, left: Any, right: Any, inplace: bool) -> Tuple[Any, List[str]]:
        """Returns (result, list of methods tried)."""
        tried: List[str] = []
        if inplace and isinstance(left, Obj) and left.cls != 'tuple':
            r = resolve_method(self.mod, left.cls, '__imatmul__')
            if r is not None:
                tried.append(f'{r[0]}.__imatmul__')
                res = self.call_method(r[1], left, [right])
                if res is not NOTIMPL:
                    return res, tried
        if isinstance(left, Obj) and left.cls != 'tuple':
            r = resolve_method(self.mod, left.cls, '__matmul__')
            if r is not None:
                tried.append(f'{r[0]}.__matmul__')
                res = self.call_method(r[1], left, [right])
                if res is not NOTIMPL:
                    return res, tried
        if isinstance(right, Obj) and right.cls != 'tuple':
            r = resolve_method(self.mod, right.cls, '__rmatmul__')
            if r is not None:
                tried.append(f'{r[0]}.__rmatmul__')
                res = self.call_method(r[1], right, [left])
                if res is not NOTIMPL:
                    return res, tried
        return NOTIMPL, tried

    # -- interpretation ----------------------------------------------------------------------------
    def call_method(self, fn: ast.AST, selfobj: Any, args: Sequence[Any]) -> Any:
        self.depth += 1
        if self.depth > 12:
            raise AnalysisError('operator dispatch recursion too deep')
        params = [a.arg for a in fn.args.args]  # type: ignore[attr-defined]
        env: Dict[str, Any] = {params[0]: selfobj}
        # constant defaults of the parameters that are not passed (`round_vals: bool = True`)
        defaults = fn.args.defaults  # type: ignore[attr-defined]
        for p, d in zip(params[len(params) - len(defaults):], defaults):
            if isinstance(d, ast.Constant) and isinstance(d.value, (bool, int, float, type(None))):
                env[p] = d.value
        for p, a in zip(params[1:], args):
            env[p] = a
        try:
            self.block(fn.body, env)  # type: ignore[attr-defined]
            res = None
        except _Return as r:
            res = r.v
        finally:
            self.depth -= 1
        return res

    def block(self, body: Sequence[ast.stmt], env: Dict[str, Any]) -> None:
        for st in body:
            self.stmt(st, env)

    def stmt(self, st: ast.stmt, env: Dict[str, Any]) -> None:
        if isinstance(st, ast.Expr):
            if isinstance(st.value, ast.Constant):
                return
            self.ev(st.value, env)
            return
        if isinstance(st, ast.AnnAssign) and st.value is None:
            return
        if isinstance(st, ast.Assign) and len(st.targets) == 1 and isinstance(st.targets[0], ast.Tuple) and isinstance(st.value, ast.Tuple) \
                and len(st.targets[0].elts) == len(st.value.elts):
            # (m._aa, m._ab, ...) = (<expr>, <expr>, ...): all right-hand sides first, then the stores
            vals = [self.ev(v, env) for v in st.value.elts]
            for t, v in zip(st.targets[0].elts, vals):
                self.store(t, v, env, st)
            return
        if isinstance(st, (ast.Assign, ast.AnnAssign)):
            val = self.ev(st.value, env)  # type: ignore[arg-type]
            tgts = st.targets if isinstance(st, ast.Assign) else [st.target]
            for t in tgts:
                self.store(t, val, env, st)
            return
        if isinstance(st, ast.AugAssign) and isinstance(st.op, ast.MatMult) and isinstance(st.target, ast.Name):
            left = env[st.target.id]
            res, _ = self.binop(left, self.ev(st.value, env), inplace=True)
            if res is NOTIMPL:
                raise AnalysisError(f'{self.mod.relpath}:{st.lineno}: nested `@=` is unsupported for these operands')
            env[st.target.id] = res
            return
        if isinstance(st, ast.If):
            if self.truth(st.test, env):
                self.block(st.body, env)
            else:
                self.block(st.orelse, env)
            return
        if isinstance(st, ast.Return):
            raise _Return(self.ev(st.value, env) if st.value is not None else None)
        if isinstance(st, ast.Pass):
            return
        raise AnalysisError(f'{self.mod.relpath}:{st.lineno}: statement not modelled in dispatch arm: `{ast.unparse(st)[:80]}`')

    def store(self, t: ast.AST, val: Any, env: Dict[str, Any], st: ast.stmt) -> None:
        if isinstance(t, ast.Name):
            env[t.id] = val
            return
        if isinstance(t, ast.Attribute) and t.attr.startswith('_') and t.attr[1:] in SLOTS and isinstance(val, Poly):
            base = self.ev(t.value, env)
            if isinstance(base, Obj) and base.kind == 'mat':
                base.data = dict(base.data)
                base.data[t.attr[1:]] = val
                if 'entry store' not in base.mutations:
                    base.mutations.append('entry store')
                return
        if isinstance(t, ast.Attribute) and t.attr in ('_x', '_y', '_z', 'x', 'y', 'z') and isinstance(val, Poly):
            base = self.ev(t.value, env)
            if isinstance(base, Obj) and base.kind == 'vec' and base.cls != 'tuple':
                base.data = list(base.data)
                base.data['xyz'.index(t.attr[-1])] = val
                if 'component store' not in base.mutations:
                    base.mutations.append('component store')
                return
        raise AnalysisError(f'{self.mod.relpath}:{st.lineno}: dispatch arm assigns to `{ast.unparse(t)}`')

    def truth(self, test: ast.AST, env: Dict[str, Any]) -> bool:
        if isinstance(test, ast.BoolOp):
            if isinstance(test.op, ast.And):
                return all(self.truth(v, env) for v in test.values)        # short-circuit, as the interpreter does
            return any(self.truth(v, env) for v in test.values)
        if isinstance(test, ast.UnaryOp) and isinstance(test.op, ast.Not):
            return not self.truth(test.operand, env)
        if isinstance(test, ast.Call) and dotted(test.func) == 'isinstance' and len(test.args) == 2:
            obj = self.ev(test.args[0], env)
            spec = test.args[1]
            names = spec.elts if isinstance(spec, ast.Tuple) else [spec]
            for nm in names:
                c = self.cname(nm)
                if c is None:
                    raise AnalysisError(f'{self.mod.relpath}:{test.lineno}: isinstance against unknown class `{ast.unparse(nm)}`')
                if self.is_instance(obj, c):
                    return True
            return False
        if isinstance(test, ast.Name) and isinstance(env.get(test.id), bool):
            return env[test.id]
        if isinstance(test, ast.Compare) and len(test.ops) == 1 and isinstance(test.ops[0], (ast.Eq, ast.NotEq)):
            a, b = test.left, test.comparators[0]
            for x, y in ((a, b), (b, a)):
                if isinstance(y, ast.Constant) and isinstance(y.value, (int, float)) and not isinstance(y.value, bool) and y.value == 0:
                    try:
                        v = self.ev(x, env)
                    except AnalysisError:
                        continue
                    if isinstance(v, AngComp) and not v.radians:
                        k = (v.key, v.axis)
                        if k not in self.assume:
                            raise NeedAssume(k)
                        return self.assume[k] if isinstance(test.ops[0], ast.Eq) else not self.assume[k]
        raise AnalysisError(f'{self.mod.relpath}:{getattr(test, "lineno", 0)}: test not modelled in dispatch arm: `{ast.unparse(test)[:80]}`')

    def ev(self, n: ast.AST, env: Dict[str, Any]) -> Any:
        if isinstance(n, ast.Name):
            if n.id == 'NotImplemented':
                return NOTIMPL
            if n.id in env:
                return env[n.id]
            c = self.cname(n)
            if c:
                return ClassRef(c)
            raise AnalysisError(f'{self.mod.relpath}:{n.lineno}: unknown name {n.id} in dispatch arm')
        if isinstance(n, ast.Attribute):
            base = self.ev(n.value, env)
            if isinstance(base, Obj) and base.kind == 'vec' and n.attr in ('_x', '_y', '_z', 'x', 'y', 'z'):
                return base.data['xyz'.index(n.attr[-1])]
            if isinstance(base, Obj) and base.kind == 'mat' and n.attr.startswith('_') and n.attr[1:] in SLOTS:
                return base.data[n.attr[1:]]
            if isinstance(base, Obj) and base.kind == 'ang' and n.attr.lstrip('_') in ANG_AXES and isinstance(base.data, tuple) and base.data[0] == 'angle':
                return AngComp(repr(base.data), ANG_AXES[n.attr.lstrip('_')])
            raise AnalysisError(f'{self.mod.relpath}:{n.lineno}: attribute not modelled: `{ast.unparse(n)}`')
        if isinstance(n, ast.BinOp) and isinstance(n.op, ast.MatMult):
            res, _ = self.binop(self.ev(n.left, env), self.ev(n.right, env), inplace=False)
            return res
        if isinstance(n, ast.Call):
            return self.call(n, env)
        if isinstance(n, ast.BinOp) and isinstance(n.op, (ast.Add, ast.Sub, ast.Mult)):
            a, b = self.ev(n.left, env), self.ev(n.right, env)
            if isinstance(a, Poly) and isinstance(b, Poly):
                return a + b if isinstance(n.op, ast.Add) else (a - b if isinstance(n.op, ast.Sub) else a * b)
        if isinstance(n, ast.UnaryOp) and isinstance(n.op, ast.USub):
            a = self.ev(n.operand, env)
            if isinstance(a, Poly):
                return -a
        if isinstance(n, ast.Constant) and isinstance(n.value, (int, float)) and not isinstance(n.value, bool) and float(n.value).is_integer():
            return Poly.const(int(n.value))
        if isinstance(n, ast.IfExp):
            # `A if <test> else B`: the test is decided by the operand classes of the case like any `if`
            return self.ev(n.body if self.truth(n.test, env) else n.orelse, env)
        raise AnalysisError(f'{self.mod.relpath}:{getattr(n, "lineno", 0)}: expression not modelled in dispatch arm: `{ast.unparse(n)[:80]}`')

    def call(self, n: ast.Call, env: Dict[str, Any]) -> Any:
        f = n.func
        d = dotted(f)
        if d == 'round' and n.args:
            a0 = self.ev(n.args[0], env)
            if isinstance(a0, Poly):
                return Poly.sym(f'round({a0!r})')          # rounding changes the value: an opaque symbol that equals nothing else
        if d in ('math.radians', 'radians', 'math.cos', 'cos', 'math.sin', 'sin') and len(n.args) == 1 and not n.keywords:
            a = self.ev(n.args[0], env)
            if isinstance(a, AngComp):
                fn = str(d).split('.')[-1]
                if fn == 'radians' and not a.radians:
                    return AngComp(a.key, a.axis, radians=True)
                if fn in ('cos', 'sin') and a.radians:
                    self.used_trig = True
                    return trig_sym(fn, a)
            raise AnalysisError(f'{self.mod.relpath}:{n.lineno}: trigonometric call not modelled in dispatch arm: `{ast.unparse(n)[:80]}`')
        # type(x)
        if isinstance(f, ast.Name) and f.id == 'type' and len(n.args) == 1:
            o = self.ev(n.args[0], env)
            if isinstance(o, Obj):
                return ClassRef(o.cls)
            raise AnalysisError('type() of non-object')
        # Constructor calls: Cls(...), type(self)(...), cls(...)
        callee: Any = None
        if isinstance(f, ast.Name) and (self.cname(f) or isinstance(env.get(f.id), ClassRef)):
            callee = ClassRef(self.cname(f)) if self.cname(f) else env[f.id]
        elif isinstance(f, ast.Call):
            callee = self.ev(f, env)
        if isinstance(callee, ClassRef):
            args = [self.ev(a, env) for a in n.args]
            kind = KIND_OF[callee.name]
            if kind == 'vec':
                if len(args) == 3 and all(isinstance(a, Poly) for a in args):
                    return Obj(callee.name, list(args), 'fresh')
                if len(args) == 1 and isinstance(args[0], Obj) and args[0].kind in ('vec', 'tuple'):
                    if callee.name == 'FrozenVec' and args[0].cls == 'FrozenVec':
                        return args[0]        # FrozenVec(FrozenVec) returns the same object
                    return Obj(callee.name, list(args[0].data), 'fresh')
            raise AnalysisError(f'{self.mod.relpath}:{n.lineno}: constructor call not modelled: `{ast.unparse(n)}`')
        if isinstance(f, ast.Attribute):
            meth = f.attr
            recv = self.ev(f.value, env)
            args = [self.ev(a, env) for a in n.args]
            if isinstance(recv, ClassRef):
                if meth == '__new__' and len(args) == 1 and isinstance(args[0], ClassRef):
                    k = KIND_OF[args[0].name]
                    data: Any = None if k != 'mat' else {s: Poly.sym(f'UNINIT_{s}') for s in SLOTS}
                    return Obj(args[0].name, data if k != 'vec' else [Poly.sym('UNINIT')] * 3, 'fresh')
                if meth == '_from_raw' and KIND_OF[recv.name] == 'mat' and len(args) == 9 and all(isinstance(a, Poly) for a in args):
                    return Obj(recv.name, dict(zip(SLOTS, args)), 'fresh')
                if meth == 'from_angle' and KIND_OF[recv.name] == 'mat' and len(args) == 1 and isinstance(args[0], Obj) and args[0].kind == 'ang':
                    return Obj(recv.name if recv.name != 'MatrixBase' else 'Matrix', from_angle_entries(args[0]), 'fresh')
                raise AnalysisError(f'{self.mod.relpath}:{n.lineno}: class-level call not modelled: `{ast.unparse(n)}`')
            if isinstance(recv, Obj):
                if meth == '_mat_mul' and len(args) == 1:
                    self.prim_mat_mul(recv, args[0])
                    return None
                if meth == '_vec_rot' and len(args) == 1:
                    self.prim_vec_rot(recv, args[0])
                    return None
                if meth == '_to_angle' and len(args) == 1:
                    return self.prim_to_angle(recv, args[0])
                r = resolve_method(self.mod, recv.cls, meth)
                if r is None:
                    raise AnalysisError(f'{self.mod.relpath}:{n.lineno}: method {recv.cls}.{meth} not found')
                if meth == 'copy':
                    return self.copy_of(recv, r[1])
                if meth in ('_rotate_angle', '__matmul__', '__rmatmul__', '__imatmul__') or (meth.startswith('_') and not meth.startswith('__')):
                    return self.call_method(r[1], recv, args)       # the operators and any private helper they share are interpreted alike
                raise AnalysisError(f'{self.mod.relpath}:{n.lineno}: method call not modelled in dispatch arm: `{ast.unparse(n)}`')
        raise AnalysisError(f'{self.mod.relpath}:{n.lineno}: call not modelled in dispatch arm: `{ast.unparse(n)[:80]}`')

    def copy_of(self, recv: Obj, fn: ast.AST) -> Obj:
        """copy(): either `return self` (alias) or builds a new object field by field (fresh)."""
        body = [s for s in fn.body if not (isinstance(s, ast.Expr) and isinstance(s.value, ast.Constant))]  # type: ignore[attr-defined]
        if len(body) == 1 and isinstance(body[0], ast.Return) and isinstance(body[0].value, ast.Name) and body[0].value.id == 'self':
            return recv
        if len(body) == 1 and isinstance(body[0], ast.Raise):
            raise AnalysisError(f'copy() of abstract base reached for {recv.cls}')
        # a constructing copy: must contain a __new__/constructor call and return that local
        has_new = any(isinstance(c, ast.Call) and ((isinstance(c.func, ast.Attribute) and c.func.attr == '__new__') or self.cname(c.func))
                      for c in ast.walk(fn))
        rets = [s for s in ast.walk(fn) if isinstance(s, ast.Return)]
        if has_new and len(rets) == 1 and not (isinstance(rets[0].value, ast.Name) and rets[0].value.id == 'self'):
            data = dict(recv.data) if isinstance(recv.data, dict) else (list(recv.data) if isinstance(recv.data, list) else recv.data)
            return Obj(recv.cls, data, 'fresh')
        raise AnalysisError(f'{self.mod.relpath}:{fn.lineno}: copy() of {recv.cls} has an unrecognised shape')  # type: ignore[attr-defined]
