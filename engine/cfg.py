"""E1 - statement-level control-flow graph with optional exceptional edges.

Nodes are simple statements, branch tests (If/While/For headers, `with` entries) and three synthetic nodes
ENTRY, EXIT (normal return / fall off the end) and RAISE (exception leaves the function).
Edges carry a label: 'next', 'true', 'false', 'exc', 'loop', 'break', 'continue', 'return'.
`may_raise(stmt)` decides which statements get exceptional edges - to every handler of the innermost enclosing
`try` (handler types are not matched: conservative for must-properties) and onward through `finally` to the
enclosing try / RAISE.  `finally` bodies are instantiated once per way of entering them (normal, exceptional,
return, break/continue), so path properties stay exact.
"""
from __future__ import annotations

import ast
from typing import Callable, Dict, Iterable, List, Optional, Sequence, Set, Tuple

from .model import AnalysisError


class Node:
    __slots__ = ('id', 'kind', 'stmt', 'label')

    def __init__(self, nid: int, kind: str, stmt: Optional[ast.AST], label: str = '') -> None:
        self.id, self.kind, self.stmt, self.label = nid, kind, stmt, label

    def __repr__(self) -> str:
        if self.stmt is not None:
            try:
                txt = ast.unparse(self.stmt).split('\n')[0][:50]
            except Exception:  # noqa: BLE001
                txt = type(self.stmt).__name__
            return f'<{self.id}:{self.kind}:{txt}>'
        return f'<{self.id}:{self.kind}>'


class CFG:
    def __init__(self) -> None:
        self.nodes: List[Node] = []
        self.succ: Dict[int, List[Tuple[int, str]]] = {}
        self.entry = self.new('ENTRY', None)
        self.exit = self.new('EXIT', None)
        self.raise_ = self.new('RAISE', None)

    def new(self, kind: str, stmt: Optional[ast.AST], label: str = '') -> Node:
        n = Node(len(self.nodes), kind, stmt, label)
        self.nodes.append(n)
        self.succ[n.id] = []
        return n

    def edge(self, a: Node, b: Node, label: str = 'next') -> None:
        if (b.id, label) not in self.succ[a.id]:
            self.succ[a.id].append((b.id, label))

    def reachable(self, start: Node, removed_nodes: Set[int] = frozenset(), removed_edges: Set[Tuple[int, int, str]] = frozenset()) -> Set[int]:
        seen: Set[int] = set()
        stack = [start.id]
        while stack:
            n = stack.pop()
            if n in seen or n in removed_nodes:
                continue
            seen.add(n)
            for m, lab in self.succ[n]:
                if (n, m, lab) in removed_edges or m in removed_nodes:
                    continue
                stack.append(m)
        return seen

    def find_path(self, start: Node, targets: Set[int], removed_nodes: Set[int] = frozenset(),
                  removed_edges: Set[Tuple[int, int, str]] = frozenset()) -> Optional[List[Tuple[int, str]]]:
        """A witness path (list of (node id, label of the edge leaving it)) from start to any target, or None."""
        prev: Dict[int, Tuple[int, str]] = {}
        seen = {start.id}
        queue = [start.id]
        while queue:
            n = queue.pop(0)
            if n in targets and n != start.id:
                path = []
                cur = n
                while cur != start.id:
                    p, lab = prev[cur]
                    path.append((p, lab))
                    cur = p
                path.reverse()
                path.append((n, ''))
                return path
            for m, lab in self.succ[n]:
                if m in seen or m in removed_nodes or (n, m, lab) in removed_edges:
                    continue
                seen.add(m)
                prev[m] = (n, lab)
                queue.append(m)
        return None

    def find_path_flags(self, start: Node, targets: Set[int], removed_nodes: Set[int] = frozenset(),
                        removed_edges: Set[Tuple[int, int, str]] = frozenset(), start_vals: Optional[Dict[str, bool]] = None) -> Optional[List[Tuple[int, str]]]:
        """Like find_path, but path-sensitive in local boolean flags: names that are only ever assigned the constants
        True/False (`committed = False ... committed = True`) are tracked along the path and tests of the form
        `flag` / `not flag` only follow the feasible branch (the guard-flag cleanup idiom)."""
        def key(el: ast.AST) -> Optional[str]:
            # a local name, or an attribute of the receiver (`self.committed`): a flag kept on the object behaves the same within one call,
            # except that its value on entry is whatever the previous call left
            if isinstance(el, ast.Name):
                return el.id
            if isinstance(el, ast.Attribute) and isinstance(el.value, ast.Name) and el.value.id == 'self':
                return 'self.' + el.attr
            return None
        assigned: Dict[str, Set[object]] = {}
        for nd in self.nodes:
            st = nd.stmt
            if nd.kind == 'stmt' and isinstance(st, ast.Assign):
                for t in st.targets:
                    for el in (t.elts if isinstance(t, (ast.Tuple, ast.List)) else [t]):
                        k_ = key(el)
                        if k_ is not None:
                            v = st.value.value if isinstance(st.value, ast.Constant) and isinstance(st.value.value, bool) and len(st.targets) == 1 and el is t else '?'
                            assigned.setdefault(k_, set()).add(v)
            elif nd.kind == 'stmt' and isinstance(st, (ast.AugAssign, ast.AnnAssign)) and key(st.target) is not None:
                assigned.setdefault(key(st.target), set()).add('?')       # type: ignore[arg-type]
        flags = {k for k, v in assigned.items() if v <= {True, False}}
        # attribute flags that this function only tests (or only sets to constants): unknown on entry
        tested_attrs = set()
        for nd in self.nodes:
            if nd.kind == 'test':
                t_ = nd.stmt.operand if isinstance(nd.stmt, ast.UnaryOp) and isinstance(nd.stmt.op, ast.Not) else nd.stmt
                k_ = key(t_) if isinstance(t_, ast.Attribute) else None
                if k_ is not None and assigned.get(k_, set()) <= {True, False}:
                    tested_attrs.add(k_)
        flags |= tested_attrs
        # a local assigned exactly once from a computed value (`commit = exc_type is None`) is unknown but *fixed*: the first test of it on a
        # path may go either way, every later test of it on that path goes the same way
        n_assign: Dict[str, int] = {}
        for nd in self.nodes:
            if nd.kind == 'stmt' and isinstance(nd.stmt, ast.Assign):
                for t in nd.stmt.targets:
                    for el in ast.walk(t):
                        if isinstance(el, ast.Name):
                            n_assign[el.id] = n_assign.get(el.id, 0) + 1
        fixed = {k for k, v in assigned.items() if v == {'?'} and n_assign.get(k) == 1}
        start_state = (start.id, frozenset((k, v) for k, v in (start_vals or {}).items() if k in flags or k in fixed))
        prev: Dict[Tuple[int, frozenset], Tuple[Tuple[int, frozenset], str]] = {}
        seen = {start_state}
        queue = [start_state]
        while queue:
            state = queue.pop(0)
            n, val = state
            if n in targets and n != start.id:
                path = []
                cur = state
                while cur != start_state:
                    p, lab = prev[cur]
                    path.append((p[0], lab))
                    cur = p
                path.reverse()
                path.append((n, ''))
                return path
            nd = self.nodes[n]
            newval = val
            if nd.kind == 'stmt' and isinstance(nd.stmt, ast.Assign) and len(nd.stmt.targets) == 1 and key(nd.stmt.targets[0]) in flags \
                    and isinstance(nd.stmt.value, ast.Constant):
                d = dict(val)
                d[key(nd.stmt.targets[0])] = nd.stmt.value.value      # type: ignore[index]
                newval = frozenset(d.items())
            elif nd.kind == 'stmt' and isinstance(nd.stmt, ast.Assign) and len(nd.stmt.targets) == 1 and isinstance(nd.stmt.targets[0], ast.Name) \
                    and nd.stmt.targets[0].id in fixed:
                d = dict(val)
                d.pop(nd.stmt.targets[0].id, None)
                newval = frozenset(d.items())
            want: Optional[str] = None
            choose: Optional[Tuple[str, bool]] = None      # (fixed flag, polarity of the test): the branch taken determines its value
            if nd.kind == 'test':
                t = nd.stmt
                cur_vals = dict(newval)
                neg_ = isinstance(t, ast.UnaryOp) and isinstance(t.op, ast.Not)
                kt = key(t.operand if neg_ else t)      # type: ignore[union-attr]
                if kt is not None and kt in flags and kt in cur_vals:
                    want = ('false' if cur_vals[kt] else 'true') if neg_ else ('true' if cur_vals[kt] else 'false')
                elif kt is not None and kt in tested_attrs:
                    choose = (kt, not neg_)            # value on entry unknown: either branch, then consistently
                elif isinstance(t, ast.Name) and t.id in fixed:
                    if t.id in cur_vals:
                        want = 'true' if cur_vals[t.id] else 'false'
                    else:
                        choose = (t.id, True)
                elif isinstance(t, ast.UnaryOp) and isinstance(t.op, ast.Not) and isinstance(t.operand, ast.Name) and t.operand.id in fixed:
                    if t.operand.id in cur_vals:
                        want = 'false' if cur_vals[t.operand.id] else 'true'
                    else:
                        choose = (t.operand.id, False)
            for m, lab in self.succ[n]:
                if m in removed_nodes or (n, m, lab) in removed_edges:
                    continue
                if want is not None and lab in ('true', 'false') and lab != want:
                    continue
                nv = newval
                if choose is not None and lab in ('true', 'false'):
                    d2 = dict(newval)
                    d2[choose[0]] = (lab == 'true') == choose[1]
                    nv = frozenset(d2.items())
                # an exceptional edge leaves *before* the statement's assignment takes effect
                st2 = (m, val if lab == 'exc' else nv)
                if st2 in seen:
                    continue
                seen.add(st2)
                prev[st2] = (state, lab)
                queue.append(st2)
        return None

    def describe(self, path: List[Tuple[int, str]]) -> str:
        parts = []
        for nid, lab in path:
            nd = self.nodes[nid]
            if nd.stmt is not None:
                try:
                    txt = ast.unparse(nd.stmt).split('\n')[0][:40]
                except Exception:  # noqa: BLE001
                    txt = nd.kind
                parts.append(f'L{getattr(nd.stmt, "lineno", "?")}:{txt}' + (f' -{lab}->' if lab not in ('', 'next') else ''))
            else:
                parts.append(nd.kind)
        return ' | '.join(parts)


class _Ctx:
    """Where control goes for the non-local exits at the current position."""

    def __init__(self, exc: Node, ret: Node, brk: Optional[Node], cont: Optional[Node]) -> None:
        self.exc, self.ret, self.brk, self.cont = exc, ret, brk, cont


def build_cfg(fn: ast.AST, may_raise: Callable[[ast.AST], bool]) -> CFG:
    g = CFG()

    def seq(stmts: Sequence[ast.stmt], entry_from: List[Tuple[Node, str]], ctx: _Ctx) -> List[Tuple[Node, str]]:
        """Wire a statement list; entry_from = dangling (node, label) edges to connect to the first statement.
        Returns the dangling exits of the list."""
        cur = entry_from
        for st in stmts:
            if not cur:
                break        # unreachable code
            cur = stmt(st, cur, ctx)
        return cur

    def connect(frm: List[Tuple[Node, str]], to: Node) -> None:
        for n, lab in frm:
            g.edge(n, to, lab)

    def stmt(st: ast.stmt, frm: List[Tuple[Node, str]], ctx: _Ctx) -> List[Tuple[Node, str]]:
        if isinstance(st, ast.If):
            t = g.new('test', st.test)
            connect(frm, t)
            if may_raise(st.test):
                g.edge(t, ctx.exc, 'exc')
            a = seq(st.body, [(t, 'true')], ctx)
            b = seq(st.orelse, [(t, 'false')], ctx) if st.orelse else [(t, 'false')]
            return a + b
        if isinstance(st, (ast.While, ast.For, ast.AsyncFor)):
            hdr = g.new('loop', st.test if isinstance(st, ast.While) else st.iter)
            connect(frm, hdr)
            if may_raise(hdr.stmt):
                g.edge(hdr, ctx.exc, 'exc')
            after = g.new('join', None, 'after-loop')
            lctx = _Ctx(ctx.exc, ctx.ret, after, hdr)
            body_out = seq(st.body, [(hdr, 'true')], lctx)
            for n, lab in body_out:
                g.edge(n, hdr, 'loop' if lab == 'next' else lab)
            infinite = isinstance(st, ast.While) and isinstance(st.test, ast.Constant) and st.test.value is True
            outs: List[Tuple[Node, str]] = []
            if not infinite:
                outs = seq(st.orelse, [(hdr, 'false')], ctx) if st.orelse else [(hdr, 'false')]
            connect(outs, after)
            return [(after, 'next')]
        if isinstance(st, (ast.With, ast.AsyncWith)):
            w = g.new('with', st)
            connect(frm, w)
            if may_raise(st):
                g.edge(w, ctx.exc, 'exc')
            return seq(st.body, [(w, 'next')], ctx)
        if isinstance(st, ast.Try):
            return try_stmt(st, frm, ctx)
        if isinstance(st, ast.Return):
            n = g.new('return', st)
            connect(frm, n)
            if st.value is not None and may_raise(st.value):
                g.edge(n, ctx.exc, 'exc')
            g.edge(n, ctx.ret, 'return')
            return []
        if isinstance(st, ast.Raise):
            n = g.new('raise', st)
            connect(frm, n)
            g.edge(n, ctx.exc, 'exc')
            return []
        if isinstance(st, ast.Break):
            n = g.new('break', st)
            connect(frm, n)
            if ctx.brk is None:
                raise AnalysisError('break outside loop')
            g.edge(n, ctx.brk, 'break')
            return []
        if isinstance(st, ast.Continue):
            n = g.new('continue', st)
            connect(frm, n)
            if ctx.cont is None:
                raise AnalysisError('continue outside loop')
            g.edge(n, ctx.cont, 'continue')
            return []
        if isinstance(st, (ast.FunctionDef, ast.AsyncFunctionDef, ast.ClassDef)):
            n = g.new('def', st)
            connect(frm, n)
            return [(n, 'next')]
        if isinstance(st, ast.Match):
            raise AnalysisError(f'match statement at line {st.lineno} is not modelled by the CFG builder')
        n = g.new('stmt', st)
        connect(frm, n)
        if may_raise(st):
            g.edge(n, ctx.exc, 'exc')
        return [(n, 'next')]

    def try_stmt(st: ast.Try, frm: List[Tuple[Node, str]], ctx: _Ctx) -> List[Tuple[Node, str]]:
        # finally instantiation helper: returns entry join node for a given continuation
        def fin_then(cont_edges: Callable[[List[Tuple[Node, str]]], None], tag: str, outer: _Ctx) -> Node:
            j = g.new('join', None, 'finally-' + tag)
            if st.finalbody:
                outs = seq(st.finalbody, [(j, 'next')], outer)
                cont_edges(outs)
            else:
                cont_edges([(j, 'next')])
            return j

        def resume(target: Optional[Node], label: str) -> Callable[[List[Tuple[Node, str]]], None]:
            def go(outs: List[Tuple[Node, str]]) -> None:
                j2 = g.new('join', None, 'finally-done-' + label)
                connect(outs, j2)          # keeps the branch labels of the dangling exits
                assert target is not None
                g.edge(j2, target, label)
            return go

        if st.finalbody:
            exc_fin = fin_then(resume(ctx.exc, 'exc'), 'exc', ctx)
            ret_fin = fin_then(resume(ctx.ret, 'return'), 'return', ctx)
            brk_fin = fin_then(resume(ctx.brk, 'break'), 'break', ctx) if ctx.brk is not None else None
            cont_fin = fin_then(resume(ctx.cont, 'continue'), 'continue', ctx) if ctx.cont is not None else None
            inner_after = _Ctx(exc_fin, ret_fin, brk_fin, cont_fin)
        else:
            inner_after = ctx
        # handlers
        hentries: List[Node] = []
        hexits: List[Tuple[Node, str]] = []
        for h in st.handlers:
            hn = g.new('handler', h)
            hentries.append(hn)
            hexits += seq(h.body, [(hn, 'next')], inner_after)
        # exceptions in the body go to every handler and (types unmatched) onward
        body_exc = g.new('join', None, 'try-exc')
        for hn in hentries:
            g.edge(body_exc, hn, 'exc')
        catches_all = any(h.type is None or (isinstance(h.type, ast.Name) and h.type.id == 'BaseException') for h in st.handlers)
        if not catches_all:
            g.edge(body_exc, inner_after.exc, 'exc')
        body_ctx = _Ctx(body_exc, inner_after.ret, inner_after.brk, inner_after.cont)
        body_out = seq(st.body, frm, body_ctx)
        else_out = seq(st.orelse, body_out, inner_after) if st.orelse else body_out
        normal = else_out + hexits
        if st.finalbody:
            j = g.new('join', None, 'finally-normal')
            connect(normal, j)
            return seq(st.finalbody, [(j, 'next')], ctx)
        return normal

    ctx0 = _Ctx(g.raise_, g.exit, None, None)
    body = getattr(fn, 'body', None)
    if body is None:
        raise AnalysisError('build_cfg: not a function')
    outs = seq(body, [(g.entry, 'next')], ctx0)
    for n, lab in outs:
        g.edge(n, g.exit, lab)
    return g


def calls_in_stmt(node: Optional[ast.AST]) -> List[ast.Call]:
    if node is None:
        return []
    out = []
    stack = [node]
    while stack:
        n = stack.pop()
        if isinstance(n, ast.Call):
            out.append(n)
        if isinstance(n, (ast.FunctionDef, ast.AsyncFunctionDef, ast.ClassDef, ast.Lambda)) and n is not node:
            continue
        # do not descend into nested statement bodies of compound statements used as node payloads
        if isinstance(n, (ast.With, ast.AsyncWith)):
            for it in n.items:
                stack.append(it.context_expr)
            continue
        if isinstance(n, ast.ExceptHandler):
            continue
        stack.extend(ast.iter_child_nodes(n))
    return out
