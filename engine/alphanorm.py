"""E12 - alpha-normalisation of local variable names.

What a local variable is called carries no behaviour, yet an idiom-recognising rule necessarily mentions *some* spelling of the code it
recognises.  The rules were made as independent of local names as practical (engine/srcmatch.py, Dotted, per-rule role derivation), and this
module closes the remaining gap for the commonest case, the pure rename:

  * `tools/gen_ref_locals.py` records, for every function of the package at the commit the rules were written against, a hash of its syntax
    tree with every renameable local replaced by the index of its first occurrence (an alpha-invariant "skeleton"), together with the names
    in that order  ->  engine/ref_locals.json;
  * when a module is loaded for analysis, every function whose skeleton hash equals the recorded one but whose names differ is *alpha
    equivalent* to the recorded function; its locals are renamed (in the in-memory tree only) to the recorded names before any rule looks at it.

Renaming locals consistently is behaviour preserving, so the verdict on the normalised tree is the verdict on the tree.  A function that was
changed in any other way has a different skeleton and is analysed exactly as it is written - nothing is ever "repaired" into the recorded shape.
The set of renameable names is the one tools/alpha_rename.py uses: bound by assignment / for / with / comprehension / walrus in the function's
own scope; not parameters, not global/nonlocal, not names bound by `except ... as`, imports or match patterns, not names a nested scope mentions.
"""
from __future__ import annotations

import ast
import hashlib
import json
import os
from typing import Any, Dict, List, Optional, Set, Tuple

_REF: Optional[Dict[str, Dict[str, Any]]] = None
REF_FILE = os.path.join(os.path.dirname(os.path.abspath(__file__)), 'ref_locals.json')


def renameable(fn: ast.AST) -> Set[str]:
    bound: Set[str] = set()
    frozen: Set[str] = set()
    a = fn.args                                                           # type: ignore[attr-defined]
    for p in a.posonlyargs + a.args + a.kwonlyargs + ([a.vararg] if a.vararg else []) + ([a.kwarg] if a.kwarg else []):
        frozen.add(p.arg)

    def visit(n: ast.AST, top: bool) -> None:
        if not top and isinstance(n, (ast.FunctionDef, ast.AsyncFunctionDef, ast.Lambda, ast.ClassDef)):
            # names the nested scope uses *free* are shared with this scope and keep their spelling; what it binds itself (parameters, its
            # own assignments) is its own business - a nested def is normalised separately
            own: Set[str] = set()
            if isinstance(n, (ast.FunctionDef, ast.AsyncFunctionDef, ast.Lambda)):
                aa = n.args
                own |= {p.arg for p in aa.posonlyargs + aa.args + aa.kwonlyargs + ([aa.vararg] if aa.vararg else []) + ([aa.kwarg] if aa.kwarg else [])}
            if isinstance(n, (ast.FunctionDef, ast.AsyncFunctionDef)):
                declared = {nm for x in ast.walk(n) if isinstance(x, (ast.Global, ast.Nonlocal)) for nm in x.names}
                own |= {x.id for x in ast.walk(n) if isinstance(x, ast.Name) and isinstance(x.ctx, (ast.Store, ast.Del))} - declared
            for x in ast.walk(n):
                if isinstance(x, ast.Name) and x.id not in own:
                    frozen.add(x.id)
            if hasattr(n, 'name'):
                frozen.add(n.name)                                         # type: ignore[attr-defined]
            # defaults / decorators / annotations are evaluated in this scope
            for part in (getattr(n, 'decorator_list', []) or []) + (list(getattr(getattr(n, 'args', None), 'defaults', [])) + [d for d in getattr(getattr(n, 'args', None), 'kw_defaults', []) if d is not None]):
                for x in ast.walk(part):
                    if isinstance(x, ast.Name):
                        frozen.add(x.id)
            return
        if isinstance(n, (ast.Global, ast.Nonlocal)):
            frozen.update(n.names)
        if isinstance(n, ast.ExceptHandler) and n.name:
            frozen.add(n.name)
        if isinstance(n, (ast.Import, ast.ImportFrom)):
            for al in n.names:
                frozen.add((al.asname or al.name).split('.')[0])
        if isinstance(n, (ast.MatchAs, ast.MatchStar)) and getattr(n, 'name', None):
            frozen.add(n.name)                                             # type: ignore[arg-type]
        if isinstance(n, ast.MatchMapping) and n.rest:
            frozen.add(n.rest)
        if isinstance(n, ast.Name) and isinstance(n.ctx, (ast.Store, ast.Del)):
            bound.add(n.id)
        for ch in ast.iter_child_nodes(n):
            visit(ch, False)
    visit(fn, True)
    return {b for b in bound - frozen if not b.startswith('__') and b != '_'}


def skeleton(fn: ast.AST) -> Tuple[str, List[str], List[ast.Name]]:
    """(hash of the alpha-invariant dump, local names in order of first occurrence, the Name nodes of those locals)"""
    locs = renameable(fn)
    order: List[str] = []
    index: Dict[str, int] = {}
    nodes: List[ast.Name] = []
    out: List[str] = []

    def dump(n: Any, top: bool) -> None:
        if isinstance(n, ast.AST):
            if not top and isinstance(n, (ast.FunctionDef, ast.AsyncFunctionDef)):
                out.append('<nested def ' + n.name + ' ' + skeleton(n)[0] + '>')       # its own locals are normalised when it is visited itself
                return
            if not top and isinstance(n, (ast.Lambda, ast.ClassDef)):
                out.append('<nested ' + ast.dump(n) + '>')
                return
            if isinstance(n, ast.Name) and n.id in locs:
                if n.id not in index:
                    index[n.id] = len(order)
                    order.append(n.id)
                nodes.append(n)
                out.append(f'L{index[n.id]}:{type(n.ctx).__name__}')
                return
            out.append(type(n).__name__ + '(')
            for f in n._fields:
                if f in ('type_comment',):
                    continue
                if top and f in ('name', 'decorator_list', 'returns', 'type_params') or (isinstance(n, ast.Expr) and isinstance(n.value, ast.Constant) and isinstance(n.value.value, str)):
                    continue                     # the function's own name / decorators / docstrings do not matter here
                out.append(f + '=')
                dump(getattr(n, f, None), False)
            out.append(')')
        elif isinstance(n, list):
            out.append('[')
            for x in n:
                dump(x, False)
            out.append(']')
        else:
            out.append(repr(n))
    dump(fn, True)
    return hashlib.sha1('\x1f'.join(out).encode('utf8', 'surrogatepass')).hexdigest(), order, nodes


def functions_of(tree: ast.AST) -> List[Tuple[str, ast.AST]]:
    found: List[Tuple[str, ast.AST]] = []

    def scan(body: List[ast.stmt], prefix: str) -> None:
        for st in body:
            if isinstance(st, (ast.FunctionDef, ast.AsyncFunctionDef)):
                found.append((prefix + st.name, st))
                scan(st.body, prefix + st.name + '.')
            elif isinstance(st, ast.ClassDef):
                scan(st.body, prefix + st.name + '.')
            elif isinstance(st, (ast.If, ast.Try)):
                scan(st.body, prefix)
                scan(getattr(st, 'orelse', []), prefix)
    scan(getattr(tree, 'body', []), '')
    return found


def load_ref() -> Dict[str, Dict[str, Any]]:
    global _REF
    if _REF is None:
        try:
            with open(REF_FILE, encoding='utf8') as f:
                _REF = json.load(f)
        except OSError:
            _REF = {}
    return _REF


def normalise(tree: ast.AST, relpath: str) -> int:
    """rename, in place, the locals of every function of `tree` that is alpha-equivalent to the recorded version; returns how many functions were touched"""
    ref = load_ref().get(relpath.replace(os.sep, '/'))
    if not ref or os.environ.get('VERIF_NO_ALPHANORM'):
        return 0
    touched = 0
    seen: Dict[str, int] = {}
    for qual, fn in functions_of(tree):
        k = seen.get(qual, 0)
        seen[qual] = k + 1
        entry = ref.get(qual if k == 0 else f'{qual}#{k}')
        if entry is None:
            continue
        h, order, nodes = skeleton(fn)
        if h != entry[0] or order == entry[1] or len(order) != len(entry[1]):
            continue
        mapping = dict(zip(order, entry[1]))
        if len(set(mapping.values())) != len(mapping):
            continue
        for n in nodes:
            n.id = mapping[n.id]
        touched += 1
    return touched
