"""E4 - string-form abstract domain.

`form_of(expr, fn)` returns a frozenset of flags describing the *form* of a string-valued expression:
  FOLDED          result of .casefold()/.lower() (or a literal that is its own casefold)
  SLASHED         backslashes replaced by forward slashes
  NORMPATH        os.path.normpath / posixpath.normpath applied
  ABS             os.path.abspath / realpath applied
  SEP_TERMINATED  ends with a path separator (x + '/', os.path.join(x, ''), rstrip('/') + '/')
  NONE_IF_EMPTY   `x or None` (empty string mapped to None)
  NONE            the literal None
  ESCAPED         escape_text(...) applied
  RESOLVED:<fn>   returned by a named sanitiser
Local names are resolved through their assignments in the function (flow-insensitive: a name has a flag only
if every assignment to it has the flag).
"""
from __future__ import annotations

import ast
from typing import Dict, FrozenSet, Iterable, List, Optional, Set

from .model import dotted, walk_no_nested

FOLDED, SLASHED, NORMPATH, ABS, SEP_TERMINATED, NONE_IF_EMPTY, NONE, ESCAPED = (
    'FOLDED', 'SLASHED', 'NORMPATH', 'ABS', 'SEP_TERMINATED', 'NONE_IF_EMPTY', 'NONE', 'ESCAPED')

FOLD_METHODS = {'casefold', 'lower'}
KEEP_FORM_METHODS = {'strip', 'rstrip', 'lstrip', 'replace', 'removeprefix', 'removesuffix'}


def _unk(n: ast.AST) -> ast.AST:
    c = ast.Constant(value=Ellipsis)
    c.lineno = getattr(n, 'lineno', 0)
    return c


class FormEnv:
    def __init__(self, fn: ast.AST, sanitisers: Optional[Dict[str, str]] = None, param_forms: Optional[Dict[str, FrozenSet[str]]] = None,
                 call_forms: Optional[Dict[str, FrozenSet[str]]] = None, attr_forms: Optional[Dict[str, FrozenSet[str]]] = None) -> None:
        self.fn = fn
        self.attr_forms = attr_forms or {}
        self._parent: Dict[int, ast.AST] = {}
        for _n in ast.walk(fn):
            for _c in ast.iter_child_nodes(_n):
                self._parent[id(_c)] = _n
        self.sanitisers = sanitisers or {}       # callee short name -> flag it grants
        self.param_forms = param_forms or {}
        self.call_forms = call_forms or {}       # callee short name -> flags of its result
        self.defs: Dict[str, List[ast.AST]] = {}
        for n in walk_no_nested(fn):
            if isinstance(n, ast.Assign):
                for t in n.targets:
                    if isinstance(t, ast.Name):
                        self.defs.setdefault(t.id, []).append(n.value)
                    elif isinstance(t, (ast.Tuple, ast.List)):
                        for e in t.elts:
                            if isinstance(e, ast.Name):
                                self.defs.setdefault(e.id, []).append(_unk(n))
            elif isinstance(n, ast.AnnAssign) and n.value is not None and isinstance(n.target, ast.Name):
                self.defs.setdefault(n.target.id, []).append(n.value)
            elif isinstance(n, ast.AugAssign) and isinstance(n.target, ast.Name):
                self.defs.setdefault(n.target.id, []).append(ast.BinOp(left=ast.Name(id=n.target.id, ctx=ast.Load()), op=n.op, right=n.value))
            elif isinstance(n, (ast.For, ast.comprehension)):
                for e in ast.walk(n.target):
                    if isinstance(e, ast.Name):
                        self.defs.setdefault(e.id, []).append(_unk(n))
            elif isinstance(n, ast.NamedExpr) and isinstance(n.target, ast.Name):
                self.defs.setdefault(n.target.id, []).append(n.value)
        self._busy: Set[str] = set()

    def form(self, e: ast.AST) -> FrozenSet[str]:
        if isinstance(e, ast.Constant):
            if e.value is None:
                return frozenset({NONE, FOLDED, NONE_IF_EMPTY})
            if isinstance(e.value, str):
                fl = set()
                if e.value == e.value.casefold():
                    fl.add(FOLDED)
                if '\\' not in e.value:
                    fl.add(SLASHED)
                if e.value.endswith(('/', '\\')):
                    fl.add(SEP_TERMINATED)
                if e.value:
                    fl.add(NONE_IF_EMPTY)
                return frozenset(fl)
            return frozenset()
        if isinstance(e, ast.Name):
            if e.id in self.defs and e.id not in self._busy:
                use_line = getattr(e, 'lineno', None)
                defs = self.defs[e.id]
                if use_line is not None:
                    before = [v for v in defs if getattr(v, 'lineno', 0) and v.lineno <= use_line]
                    if before:
                        defs = before
                top_level = {id(st.value) for st in getattr(self.fn, 'body', []) if isinstance(st, (ast.Assign, ast.AnnAssign)) and getattr(st, 'value', None) is not None}
                # a definition earlier in one of the statement lists enclosing the use is unconditional relative to the use
                cur: Optional[ast.AST] = e
                while cur is not None:
                    par = self._parent.get(id(cur))
                    if par is None:
                        break
                    for fld in ('body', 'orelse', 'finalbody'):
                        seq = getattr(par, fld, None)
                        if isinstance(seq, list) and any(x is cur for x in seq):
                            for st in seq:
                                if st is cur:
                                    break
                                if isinstance(st, (ast.Assign, ast.AnnAssign)) and getattr(st, 'value', None) is not None:
                                    top_level.add(id(st.value))
                    cur = par
                killed = any(id(v) in top_level for v in defs)     # an unconditional re-assignment at function level precedes the use
                if killed:
                    # only definitions from the last unconditional one onwards can reach the use
                    idx = max(i for i, v in enumerate(defs) if id(v) in top_level)
                    defs = defs[idx:]
                self._busy.add(e.id)
                try:
                    forms = [self.form(v) for v in defs]
                finally:
                    self._busy.discard(e.id)
                if e.id in self._params() and not killed:
                    forms.append(self.param_forms.get(e.id, frozenset()))
                out = set(forms[0])
                for f in forms[1:]:
                    out &= f
                return frozenset(out)
            if e.id in self.param_forms:
                return self.param_forms[e.id]
            return frozenset()
        if isinstance(e, ast.BoolOp) and isinstance(e.op, ast.Or):
            # `x or None` / `x or ''`
            first = self.form(e.values[0])
            last = e.values[-1]
            if isinstance(last, ast.Constant) and last.value is None and len(e.values) == 2:
                return frozenset(set(first) | {NONE_IF_EMPTY})
            if isinstance(last, ast.Constant) and last.value == '' and len(e.values) == 2:
                return frozenset(set(first) - {NONE_IF_EMPTY})
            out = set(first)
            for v in e.values[1:]:
                out &= self.form(v)
            return frozenset(out)
        if isinstance(e, ast.IfExp):
            return frozenset(self.form(e.body) & self.form(e.orelse))
        if isinstance(e, ast.Call):
            f = e.func
            if isinstance(f, ast.Attribute):
                if f.attr in FOLD_METHODS and not e.args:
                    return frozenset((set(self.form(f.value)) | {FOLDED}) - {NONE_IF_EMPTY})
                if f.attr == 'replace' and len(e.args) == 2 and isinstance(e.args[0], ast.Constant) and e.args[0].value == '\\' \
                        and isinstance(e.args[1], ast.Constant) and e.args[1].value == '/':
                    return frozenset(set(self.form(f.value)) | {SLASHED})
                if f.attr in KEEP_FORM_METHODS:
                    base = set(self.form(f.value)) - {SEP_TERMINATED, NONE_IF_EMPTY}
                    return frozenset(base)
            d = dotted(f) or ''
            short = d.split('.')[-1]
            if d in ('os.path.abspath', 'os.path.realpath', 'posixpath.abspath'):
                return frozenset({ABS, NORMPATH})
            if short == 'normpath':
                return frozenset((set(self.form(e.args[0])) | {NORMPATH}) - {SEP_TERMINATED}) if e.args else frozenset()
            if d in ('os.path.join', 'posixpath.join') and e.args:
                fl = set()
                if isinstance(e.args[-1], ast.Constant) and e.args[-1].value == '':
                    fl.add(SEP_TERMINATED)
                return frozenset(fl)
            if short == 'escape_text':
                return frozenset({ESCAPED})
            if short in self.sanitisers:
                return frozenset({self.sanitisers[short]})
            if short in self.call_forms:
                return self.call_forms[short]
            if short in ('str', 'fspath') and e.args:
                return self.form(e.args[0])
            return frozenset()
        if isinstance(e, ast.BinOp) and isinstance(e.op, ast.Add):
            l, r = self.form(e.left), self.form(e.right)
            fl = set()
            if FOLDED in l and FOLDED in r:
                fl.add(FOLDED)
            if SLASHED in l and SLASHED in r:
                fl.add(SLASHED)
            if SEP_TERMINATED in r or (isinstance(e.right, ast.Constant) and isinstance(e.right.value, str) and e.right.value.endswith(('/', '\\'))):
                fl.add(SEP_TERMINATED)
            if isinstance(e.right, ast.Attribute) and dotted(e.right) in ('os.sep', 'os.path.sep'):
                fl.add(SEP_TERMINATED)
            return frozenset(fl)
        if isinstance(e, ast.JoinedStr):
            fl = set()
            if e.values and isinstance(e.values[-1], ast.Constant) and str(e.values[-1].value).endswith(('/', '\\')):
                fl.add(SEP_TERMINATED)
            return frozenset(fl)
        if isinstance(e, ast.NamedExpr):
            return self.form(e.value)
        if isinstance(e, ast.Attribute):
            d = dotted(e)
            if d in self.attr_forms:
                return self.attr_forms[d]
            if isinstance(e.value, ast.Name) and ('*.' + e.attr) in self.attr_forms:
                return self.attr_forms['*.' + e.attr]        # `<any local>.attr`: the form belongs to the attribute, not to the local's name
        return frozenset()

    def _params(self) -> Set[str]:
        a = getattr(self.fn, 'args', None)
        if a is None:
            return set()
        return {x.arg for x in a.args + a.kwonlyargs + a.posonlyargs}
