"""Reporting: rule instances, violations, known findings, evidence and replay files."""
from __future__ import annotations

import ast
import hashlib
import json
import os
import time
from typing import Any, Dict, List, Optional

from .model import AnalysisError, Module, norm

VERIF = os.path.dirname(os.path.dirname(os.path.abspath(__file__)))
KNOWN_FILE = os.path.join(VERIF, 'known_findings.json')


class Instance:
    __slots__ = ('rule', 'file', 'func', 'text', 'line', 'ok', 'detail')

    def __init__(self, rule: str, file: str, func: str, text: str, line: int, ok: bool, detail: str) -> None:
        self.rule, self.file, self.func, self.text, self.line, self.ok, self.detail = rule, file, func, text, line, ok, detail

    @property
    def key(self) -> str:
        return f'{self.rule} | {self.file} | {self.func} | {self.text}'

    def as_dict(self) -> Dict[str, Any]:
        return {'rule': self.rule, 'file': self.file, 'function': self.func, 'construct': self.text,
                'line': self.line, 'ok': self.ok, 'detail': self.detail}


class Ctx:
    """Collects rule instances for one property run."""

    def __init__(self, prop: str, tier: str, level: str) -> None:
        self.prop = prop
        self.tier = tier
        self.level = level
        self.instances: List[Instance] = []
        self.floors: Dict[str, int] = {}
        self.rule_text: Dict[str, str] = {}
        self.notes: List[str] = []
        self.assumptions: List[str] = []
        self.not_decided: List[str] = []
        self.selftest: Dict[str, Any] = {}
        self.t0 = time.time()
        self.only_key: Optional[str] = None   # replay mode: restrict reporting to one key
        self.unrecognised: List[str] = []     # shape() mismatches: the rule cannot decide, the run gives no verdict

    # -- registration ------------------------------------------------------------------------
    def rule(self, rule_id: str, text: str, floor: int = 1) -> None:
        """Declare a rule, its statement and the minimum number of instances it must examine."""
        self.rule_text[rule_id] = text
        self.floors[rule_id] = floor

    def check(self, rule: str, ok: bool, mod: Optional[Module], node: Optional[ast.AST], detail: str,
              func: Optional[str] = None, text: Optional[str] = None, file: Optional[str] = None) -> bool:
        """Record one examined rule instance. `ok=False` is a violation of the rule at `node`."""
        if rule not in self.rule_text:
            raise AnalysisError(f'internal: rule {rule} used before being declared')
        if func is None and mod is not None and node is not None:
            fn = node if isinstance(node, (ast.FunctionDef, ast.AsyncFunctionDef, ast.ClassDef)) else mod.enclosing_func(node)
            func = mod.qualname_of(fn) if fn is not None else '<module>'
        if text is None:
            text = norm(node) if node is not None else ''
        self.instances.append(Instance(
            rule, file or (mod.relpath if mod is not None else '-'), func or '-', text,
            getattr(node, 'lineno', 0) if node is not None else 0, bool(ok), detail))
        return bool(ok)

    def shape(self, rule: str, ok: bool, mod: Optional[Module], node: Optional[ast.AST], detail: str,
              func: Optional[str] = None, text: Optional[str] = None, file: Optional[str] = None) -> bool:
        """An instance whose test is *recognition of an enumerated idiom* (typically a comparison with the normalised source
        of a construct).  A match is a satisfied instance.  A mismatch is NOT a violation - a behaviour-preserving rewrite
        would mismatch as well - but makes the run undecided (exit 2) unless a definite violation is found elsewhere."""
        if ok:
            return self.check(rule, True, mod, node, detail, func=func, text=text, file=file)
        where = f'{file or (mod.relpath if mod is not None else "-")}:{getattr(node, "lineno", 0) if node is not None else 0}'
        self.unrecognised.append(f'[{rule}] {where} in {func or "-"}: `{text or ""}` - idiom not recognised ({detail})')
        return False

    def note(self, s: str) -> None:
        self.notes.append(s)

    # -- finishing ---------------------------------------------------------------------------
    def finish(self, prog_consulted: List[str]) -> int:
        dump = os.environ.get('VERIF_DUMP_INSTANCES')
        if dump:
            # debugging aid (tools/diff_instances.sh): which instances exist on this tree, keyed without line numbers
            with open(dump, 'w') as f:
                for i in self.instances:
                    f.write(f'{i.rule} | {i.func} | {"ok" if i.ok else "BAD"}\n')
                for u in self.unrecognised:
                    f.write('UNREC ' + u[:160] + '\n')
        # floors: a rule that examined fewer instances than confirmed by hand is analysis-broken
        counts: Dict[str, int] = {r: 0 for r in self.rule_text}
        for i in self.instances:
            counts[i.rule] += 1
        if self.unrecognised:
            for u in self.unrecognised:
                print(f'UNRECOGNISED property={self.prop} {u}')
            if not any(not i.ok for i in self.instances):
                raise AnalysisError(f'{len(self.unrecognised)} construct(s) no longer have an enumerated shape; no verdict: ' + '; '.join(self.unrecognised)[:600])
            self.floors = {r: 0 for r in self.floors}
            self.notes.append('partial verdict: some constructs were not recognised: ' + '; '.join(self.unrecognised)[:600])
        for r, fl in self.floors.items():
            if counts[r] < fl:
                raise AnalysisError(f'rule {r} examined {counts[r]} instances, below its floor {fl} '
                                    f'(an anchor or idiom the rule relies on has vanished)')
        known = load_known()
        bad = [i for i in self.instances if not i.ok]
        if self.only_key is not None:
            bad = [i for i in bad if i.key == self.only_key]
        violations: List[Instance] = []
        known_hits: List[Instance] = []
        seen = set()
        for i in bad:
            if i.key in seen:
                continue
            seen.add(i.key)
            ent = known.get((self.prop, i.key))
            if ent is not None and ent.get('status') == 'known':
                known_hits.append(i)
                print(f'KNOWN-FINDING: property={self.prop} {i.rule} {i.file}:{i.func}: {ent.get("what", i.detail)}')
            else:
                violations.append(i)
        for i in violations:
            path = write_replay(self.prop, i, self.rule_text.get(i.rule, ''))
            print(f'{i.file}:{i.line}: [{i.rule}] in {i.func}: `{i.text}` -- {i.detail}')
            print(f'VIOLATION property={self.prop} replay={path}')
        self.write_evidence(prog_consulted, counts, violations, known_hits)
        n_ok = sum(1 for i in self.instances if i.ok)
        print(f'{self.prop} [{self.tier}]: {len(self.rule_text)} rules, {len(self.instances)} instances examined, '
              f'{n_ok} satisfied, {len(violations)} violations, {len(known_hits)} known findings, '
              f'{time.time() - self.t0:.2f}s')
        if self.unrecognised and not violations:
            raise AnalysisError(f'{len(self.unrecognised)} construct(s) no longer have an enumerated shape; no verdict (only known findings besides)')
        return 1 if violations else 0

    def write_evidence(self, consulted: List[str], counts: Dict[str, int], violations: List[Instance],
                       known_hits: List[Instance]) -> None:
        samples = []
        per_rule_sample: Dict[str, int] = {}
        for i in self.instances:
            if per_rule_sample.get(i.rule, 0) < 3:
                per_rule_sample[i.rule] = per_rule_sample.get(i.rule, 0) + 1
                samples.append(i.as_dict())
        distinct = len({i.key for i in self.instances})
        n_ok = sum(1 for i in self.instances if i.ok)
        obligations = len(self.instances)
        coverage: Dict[str, Any] = {
            'explanation': (
                'Repository-specific static rules evaluated over the parsed source of /repo/src/srctools on this run '
                '(nothing imported or executed). Each rule instance is one construct (function, call site, '
                'reader/writer pair, table entry) examined against the rule; "ok" means the accepted idiom was matched. '
                'The rules decide the structural clauses listed in "decided"; the behavioural remainder in '
                '"not_decided" is not claimed.'),
            'evaluations': obligations,
            'distinct_nontrivial': distinct,
            'rule': 'an instance is non-trivial when it is a distinct (rule, file, function, construct) tuple examined on this run',
            'obligations': obligations,
            'discharged': n_ok + len(known_hits) if not violations else n_ok,
            'checker_cmd': f'/venv/bin/python /verif/check.py {self.prop} --tier {self.tier}',
            'trusted_base': ['CPython ast/tokenize/re._parser', 'engine/*.py of /verif (constant folder, CFG, extractors)',
                             'the per-rule argument in DESIGN.md that the clause is necessary for the property'],
            'rules': {r: {'statement': self.rule_text[r], 'instances': counts[r], 'floor': self.floors[r],
                          'violations': sum(1 for i in self.instances if i.rule == r and not i.ok)}
                      for r in self.rule_text},
            'files_analysed': sorted(set(consulted)),
            'functions_analysed': sorted({f'{i.file}:{i.func}' for i in self.instances}),
            'samples': samples,
            'decided': sorted(self.rule_text),
            'not_decided': self.not_decided,
            'notes': self.notes,
            'known_findings_reported': [i.as_dict() for i in known_hits],
            'violations_reported': [i.as_dict() for i in violations],
        }
        if self.selftest:
            coverage['selftest'] = self.selftest
        ev = {
            'property_id': self.prop,
            'tier': self.tier,
            'seed': int(os.environ.get('VERIF_SEED', '0') or 0),
            'level': self.level,
            'coverage': coverage,
            'assumptions': self.assumptions,
            'wall_s': round(time.time() - self.t0, 3),
            'violations': len(violations),
        }
        if os.environ.get('VERIF_NO_EVIDENCE'):
            return
        os.makedirs(os.path.join(VERIF, 'evidence'), exist_ok=True)
        path = os.path.join(VERIF, 'evidence', f'{self.prop}.json')
        tmp = path + '.tmp%d' % os.getpid()
        with open(tmp, 'w') as f:
            json.dump(ev, f, indent=1, sort_keys=False)
            f.write('\n')
        os.replace(tmp, path)


def load_known() -> Dict[Any, Dict[str, Any]]:
    if not os.path.isfile(KNOWN_FILE):
        return {}
    with open(KNOWN_FILE) as f:
        data = json.load(f)
    out = {}
    for ent in data.get('findings', []):
        out[(ent['property'], ent['key'])] = ent
    return out


def write_replay(prop: str, inst: Instance, rule_text: str) -> str:
    h = hashlib.sha256(inst.key.encode('utf8')).hexdigest()[:12]
    d = os.path.join(os.environ.get('VERIF_REPLAY_DIR', os.path.join(VERIF, 'replay')), prop)
    os.makedirs(d, exist_ok=True)
    path = os.path.join(d, f'{h}.json')
    with open(path, 'w') as f:
        json.dump({'property': prop, 'key': inst.key, 'rule': inst.rule, 'rule_statement': rule_text,
                   'file': inst.file, 'line': inst.line, 'function': inst.func, 'construct': inst.text,
                   'detail': inst.detail,
                   'replay_cmd': f'/venv/bin/python /verif/check.py {prop} --replay {path}'}, f, indent=1)
        f.write('\n')
    return path
