"""E10 - bounded evaluator for small pure integer / collection code ("probe").

Some clauses are stated about the *result* of a few lines of bookkeeping code (the lowest unused index, a clamp, an
offset).  The rules recognise the idiom the repository uses and decide it structurally; for any other spelling they
would have to decline.  This module lets a rule do better in one direction only: it interprets the statements over
the syntax tree - nothing from the repository is imported or executed - on every member of a small finite family of
inputs and compares the outcome with the clause.  A disagreement is a concrete counterexample and is reported as a
violation (with the input); agreement on the whole family proves nothing beyond the family, so the rule still declines
(exit 2) in that case.  Anything outside the subset below raises Unsupported, which also means "decline".

Subset: int/bool/str/None/tuple/list/set/dict values; names, constants, arithmetic, comparisons (incl. chained,
in / not in / is), boolean operators, conditional expressions, subscripts and slices, attribute reads on Obj records,
comprehensions, calls of len/sorted/set/list/tuple/min/max/range/enumerate/any/all/sum/abs/int/bool/reversed/zip/
iter/next and itertools.count, methods of the built-in collections; statements Assign/AugAssign/AnnAssign/If/While/
For/Break/Continue/Return/Expr/Pass/Assert/Raise.  Loops are cut off after FUEL steps.
"""
from __future__ import annotations

import ast
import itertools
from typing import Any, Callable, Dict, List, Optional, Sequence

FUEL = 20000


class Unsupported(Exception):
    pass


class Raised(Exception):
    """the interpreted code raised (exception class name in args[0])"""


class Obj:
    """a record with attributes (stands for an instance whose fields the probe chooses)"""

    def __init__(self, **kw: Any) -> None:
        self.__dict__.update(kw)

    def __repr__(self) -> str:
        return 'Obj(' + ', '.join(f'{k}={v!r}' for k, v in self.__dict__.items()) + ')'


class _Break(Exception):
    pass


class _Continue(Exception):
    pass


class _Return(Exception):
    def __init__(self, value: Any) -> None:
        self.value = value


_BUILTINS: Dict[str, Callable[..., Any]] = {
    'len': len, 'sorted': sorted, 'set': set, 'list': list, 'tuple': tuple, 'min': min, 'max': max, 'range': range, 'enumerate': enumerate,
    'any': any, 'all': all, 'sum': sum, 'abs': abs, 'int': int, 'bool': bool, 'reversed': reversed, 'zip': zip, 'iter': iter, 'next': next,
    'frozenset': frozenset, 'dict': dict, 'divmod': divmod, 'round': round, 'float': float, 'str': str, 'isinstance': None,   # type: ignore[dict-item]
}
_BUILTINS['filter'] = lambda fn, it: [x for x in it if (x if fn is None else fn(x))]
import posixpath as _pp
_PATH_FUNCS: Dict[str, Callable[..., Any]] = {'os.path.split': _pp.split, 'os.path.normpath': _pp.normpath, 'os.path.basename': _pp.basename, 'os.path.dirname': _pp.dirname,
                                               'os.path.splitext': _pp.splitext, 'os.path.join': _pp.join, 'os.path.abspath': lambda p_: _abs(p_), 'os.path.isabs': _pp.isabs, 'os.path.commonpath': _pp.commonpath,
                                               'os.path.relpath': lambda p_, start: _pp.relpath(_abs(p_), _abs(start)), 'posixpath.split': _pp.split, 'posixpath.normpath': _pp.normpath}


def _abs(p_: str) -> str:
    if not p_.startswith('/'):
        raise Unsupported('abspath of a relative path depends on the working directory')
    return _pp.normpath(p_)


_SAFE_METHODS = {
    set: {'add', 'discard', 'remove', 'copy', 'union', 'difference', 'intersection', 'issubset', 'update', 'pop', 'clear', '__contains__'},
    frozenset: {'union', 'difference', 'intersection', 'issubset', 'copy'},
    list: {'append', 'extend', 'insert', 'pop', 'remove', 'sort', 'reverse', 'index', 'count', 'copy', 'clear'},
    dict: {'get', 'values', 'keys', 'items', 'setdefault', 'pop', 'copy', 'update', 'clear'},
    tuple: {'index', 'count'},
    str: {'startswith', 'endswith', 'casefold', 'lower', 'upper', 'strip', 'lstrip', 'rstrip', 'replace', 'split', 'rsplit', 'partition', 'rpartition', 'find', 'rfind', 'join',
          'isdigit', 'removeprefix', 'removesuffix', 'index', 'count', 'format', 'encode'},
    bytes: {'startswith', 'endswith', 'find', 'rfind', 'index', 'partition', 'split', 'decode', 'ljust', 'rstrip', 'strip'},
    int: {'bit_length', 'to_bytes'},
}


class MiniEval:
    def __init__(self, env: Optional[Dict[str, Any]] = None, funcs: Optional[Dict[str, ast.AST]] = None, methods: Optional[Dict[str, ast.AST]] = None) -> None:
        self.env: Dict[str, Any] = dict(env or {})
        self.funcs = funcs or {}          # module-level helpers that may be inlined: name -> FunctionDef
        self.methods = methods or {}      # `self.<name>(...)` helpers: name -> FunctionDef (first parameter bound to env['self'])
        self.fuel = FUEL

    # ---- statements -----------------------------------------------------------------------------------------
    def run(self, body: Sequence[ast.stmt]) -> Any:
        """execute; returns the value of a `return` (None if the end is reached)"""
        try:
            self.block(body)
        except _Return as r:
            return r.value
        except (_Break, _Continue):
            raise Unsupported('break/continue outside loop')
        return None

    def block(self, body: Sequence[ast.stmt]) -> None:
        for st in body:
            self.stmt(st)

    def tick(self) -> None:
        self.fuel -= 1
        if self.fuel <= 0:
            raise Unsupported('fuel exhausted (unbounded loop on this input?)')

    def stmt(self, st: ast.stmt) -> None:
        self.tick()
        if isinstance(st, ast.Assign):
            v = self.ev(st.value)
            for t in st.targets:
                self.assign(t, v)
        elif isinstance(st, ast.AnnAssign):
            if st.value is not None:
                self.assign(st.target, self.ev(st.value))
        elif isinstance(st, ast.AugAssign):
            cur = self.ev(_load(st.target))
            self.assign(st.target, self.binop(st.op, cur, self.ev(st.value)))
        elif isinstance(st, ast.If):
            self.block(st.body if self.ev(st.test) else st.orelse)
        elif isinstance(st, ast.While):
            broke = False
            while self.ev(st.test):
                self.tick()
                try:
                    self.block(st.body)
                except _Break:
                    broke = True
                    break
                except _Continue:
                    continue
            if not broke:
                self.block(st.orelse)
        elif isinstance(st, ast.For):
            broke = False
            for item in self.iterate(self.ev(st.iter)):
                self.tick()
                self.assign(st.target, item)
                try:
                    self.block(st.body)
                except _Break:
                    broke = True
                    break
                except _Continue:
                    continue
            if not broke:
                self.block(st.orelse)
        elif isinstance(st, ast.Break):
            raise _Break()
        elif isinstance(st, ast.Continue):
            raise _Continue()
        elif isinstance(st, ast.Return):
            raise _Return(self.ev(st.value) if st.value is not None else None)
        elif isinstance(st, ast.Expr):
            if not isinstance(st.value, ast.Constant):
                self.ev(st.value)
        elif isinstance(st, ast.Pass):
            pass
        elif isinstance(st, ast.Assert):
            if not self.ev(st.test):
                raise Raised('AssertionError')
        elif isinstance(st, ast.Raise):
            name = ''
            if st.exc is not None:
                f = st.exc.func if isinstance(st.exc, ast.Call) else st.exc
                name = ast.unparse(f)
            raise Raised(name)
        else:
            raise Unsupported(f'statement {type(st).__name__}')

    def iterate(self, v: Any) -> Any:
        if isinstance(v, (list, tuple, set, frozenset, dict, range, str, bytes)) or hasattr(v, '__next__') or isinstance(v, (type({}.values()), type({}.keys()), type({}.items()), enumerate, zip, reversed)):
            return v
        try:
            return iter(v)
        except TypeError:
            raise Unsupported(f'iteration over {type(v).__name__}')

    def assign(self, t: ast.AST, v: Any) -> None:
        if isinstance(t, ast.Name):
            self.env[t.id] = v
        elif isinstance(t, (ast.Tuple, ast.List)):
            vals = list(v)
            if len(vals) != len(t.elts) or any(isinstance(e, ast.Starred) for e in t.elts):
                raise Unsupported('unpacking shape')
            for e, x in zip(t.elts, vals):
                self.assign(e, x)
        elif isinstance(t, ast.Attribute):
            o = self.ev(t.value)
            if not isinstance(o, Obj):
                raise Unsupported('attribute store on non-record')
            setattr(o, t.attr, v)
        elif isinstance(t, ast.Subscript):
            o = self.ev(t.value)
            if not isinstance(o, (list, dict)):
                raise Unsupported('subscript store')
            o[self.ev(t.slice)] = v
        else:
            raise Unsupported(f'assignment target {type(t).__name__}')

    # ---- expressions ----------------------------------------------------------------------------------------
    def ev(self, n: ast.AST) -> Any:
        self.tick()
        if isinstance(n, ast.Constant):
            return n.value
        if isinstance(n, ast.Name):
            if n.id in self.env:
                return self.env[n.id]
            if n.id in ('True', 'False', 'None'):
                return {'True': True, 'False': False, 'None': None}[n.id]
            raise Unsupported(f'unbound name {n.id}')
        if isinstance(n, ast.BinOp):
            return self.binop(n.op, self.ev(n.left), self.ev(n.right))
        if isinstance(n, ast.UnaryOp):
            v = self.ev(n.operand)
            if isinstance(n.op, ast.Not):
                return not v
            if isinstance(n.op, ast.USub):
                return -v
            if isinstance(n.op, ast.UAdd):
                return +v
            if isinstance(n.op, ast.Invert):
                return ~v
        if isinstance(n, ast.BoolOp):
            v = None
            for x in n.values:
                v = self.ev(x)
                if isinstance(n.op, ast.And) and not v:
                    return v
                if isinstance(n.op, ast.Or) and v:
                    return v
            return v
        if isinstance(n, ast.Compare):
            left = self.ev(n.left)
            for op, r in zip(n.ops, n.comparators):
                right = self.ev(r)
                if not self.cmp(op, left, right):
                    return False
                left = right
            return True
        if isinstance(n, ast.IfExp):
            return self.ev(n.body) if self.ev(n.test) else self.ev(n.orelse)
        if isinstance(n, ast.Tuple):
            return tuple(self.ev(e) for e in n.elts)
        if isinstance(n, ast.List):
            return [self.ev(e) for e in n.elts]
        if isinstance(n, ast.Set):
            return {self.ev(e) for e in n.elts}
        if isinstance(n, ast.Dict):
            if any(k is None for k in n.keys):
                raise Unsupported('dict unpacking')
            return {self.ev(k): self.ev(v) for k, v in zip(n.keys, n.values)}   # type: ignore[arg-type]
        if isinstance(n, (ast.ListComp, ast.SetComp, ast.GeneratorExp, ast.DictComp)):
            return self.comp(n)
        if isinstance(n, ast.Subscript):
            o = self.ev(n.value)
            if isinstance(n.slice, ast.Slice):
                lo = self.ev(n.slice.lower) if n.slice.lower is not None else None
                hi = self.ev(n.slice.upper) if n.slice.upper is not None else None
                stp = self.ev(n.slice.step) if n.slice.step is not None else None
                return o[lo:hi:stp]
            try:
                return o[self.ev(n.slice)]
            except (KeyError, IndexError) as exc:
                raise Raised(type(exc).__name__)
        if isinstance(n, ast.Attribute):
            o = self.ev(n.value)
            if isinstance(o, Obj):
                if not hasattr(o, n.attr):
                    raise Unsupported(f'record has no field {n.attr}')
                return getattr(o, n.attr)
            raise Unsupported(f'attribute {n.attr} of {type(o).__name__}')
        if isinstance(n, ast.Call):
            return self.call(n)
        if isinstance(n, ast.NamedExpr):
            v = self.ev(n.value)
            self.assign(n.target, v)
            return v
        if isinstance(n, ast.JoinedStr):
            out = ''
            for p in n.values:
                if isinstance(p, ast.Constant):
                    out += str(p.value)
                elif isinstance(p, ast.FormattedValue) and p.format_spec is None and p.conversion == -1:
                    out += format(self.ev(p.value))
                else:
                    raise Unsupported('format spec')
            return out
        raise Unsupported(f'expression {type(n).__name__}')

    def binop(self, op: ast.operator, a: Any, b: Any) -> Any:
        try:
            if isinstance(op, ast.Add):
                return a + b
            if isinstance(op, ast.Sub):
                return a - b
            if isinstance(op, ast.Mult):
                return a * b
            if isinstance(op, ast.FloorDiv):
                return a // b
            if isinstance(op, ast.Mod):
                return a % b
            if isinstance(op, ast.Div):
                return a / b
            if isinstance(op, ast.BitAnd):
                return a & b
            if isinstance(op, ast.BitOr):
                return a | b
            if isinstance(op, ast.BitXor):
                return a ^ b
            if isinstance(op, ast.LShift):
                return a << b
            if isinstance(op, ast.RShift):
                return a >> b
            if isinstance(op, ast.Pow) and isinstance(b, int) and 0 <= b <= 64:
                return a ** b
        except ZeroDivisionError:
            raise Raised('ZeroDivisionError')
        except TypeError:
            raise Raised('TypeError')
        raise Unsupported(f'operator {type(op).__name__}')

    def cmp(self, op: ast.cmpop, a: Any, b: Any) -> bool:
        try:
            if isinstance(op, ast.Eq):
                return bool(a == b)
            if isinstance(op, ast.NotEq):
                return bool(a != b)
            if isinstance(op, ast.Lt):
                return bool(a < b)
            if isinstance(op, ast.LtE):
                return bool(a <= b)
            if isinstance(op, ast.Gt):
                return bool(a > b)
            if isinstance(op, ast.GtE):
                return bool(a >= b)
            if isinstance(op, ast.In):
                return a in b
            if isinstance(op, ast.NotIn):
                return a not in b
            if isinstance(op, ast.Is):
                return a is b
            if isinstance(op, ast.IsNot):
                return a is not b
        except TypeError:
            raise Raised('TypeError')
        raise Unsupported('comparison')

    def comp(self, n: Any) -> Any:
        out: List[Any] = []
        saved = dict(self.env)

        def rec(i: int) -> None:
            if i == len(n.generators):
                out.append((self.ev(n.key), self.ev(n.value)) if isinstance(n, ast.DictComp) else self.ev(n.elt))
                return
            g = n.generators[i]
            if g.is_async:
                raise Unsupported('async comprehension')
            for item in self.iterate(self.ev(g.iter)):
                self.tick()
                self.assign(g.target, item)
                if all(self.ev(c) for c in g.ifs):
                    rec(i + 1)
        rec(0)
        self.env = saved
        if isinstance(n, ast.SetComp):
            return set(out)
        if isinstance(n, ast.DictComp):
            return dict(out)
        return out          # a generator expression is materialised (evaluation order is the same for the pure code handled here)

    def call(self, n: ast.Call) -> Any:
        if any(isinstance(a, ast.Starred) for a in n.args) or any(k.arg is None for k in n.keywords):
            raise Unsupported('star arguments')
        f = n.func
        if isinstance(f, ast.Name) and f.id == 'isinstance' and 'isinstance' not in self.env:
            # only against built-in value types, named directly
            if len(n.args) == 2 and not n.keywords:
                spec = n.args[1]
                names = [x for x in (spec.elts if isinstance(spec, ast.Tuple) else [spec])]
                types = {'str': str, 'bytes': bytes, 'int': int, 'float': float, 'bool': bool, 'tuple': tuple, 'list': list, 'dict': dict, 'set': set, 'frozenset': frozenset}
                if all(isinstance(x, ast.Name) and x.id in types and x.id not in self.env for x in names):
                    return isinstance(self.ev(n.args[0]), tuple(types[x.id] for x in names))     # type: ignore[union-attr]
            raise Unsupported('isinstance')
        args = [self.ev(a) for a in n.args]
        kw = {k.arg: self.ev(k.value) for k in n.keywords}
        if isinstance(f, ast.Name):
            if f.id in self.funcs:
                return self.inline(self.funcs[f.id], args, kw, None)
            if f.id in _BUILTINS and f.id not in self.env:
                if f.id == 'sorted' and 'key' in kw:
                    raise Unsupported('sorted with key')
                try:
                    return _BUILTINS[f.id](*args, **kw)
                except (ValueError, TypeError, StopIteration) as exc:
                    raise Raised(type(exc).__name__)
            raise Unsupported(f'call of {f.id}')
        if isinstance(f, ast.Attribute):
            if ast.unparse(f) in ('itertools.count',):
                return itertools.count(*args)
            if ast.unparse(f) in _PATH_FUNCS and all(isinstance(a, str) for a in args) and not kw:
                # pure string functions of the standard library, POSIX flavour (a model of the library, not code of the repository)
                return _PATH_FUNCS[ast.unparse(f)](*args)
            if isinstance(f.value, ast.Name) and f.value.id == 'self' and f.attr in self.methods:
                m_ = self.methods[f.attr]
                if any(isinstance(d, ast.Name) and d.id == 'staticmethod' for d in getattr(m_, 'decorator_list', [])):
                    return self.inline(m_, args, kw, None)
                return self.inline(m_, args, kw, self.env.get('self'))
            o = self.ev(f.value)
            for typ, names in _SAFE_METHODS.items():
                if type(o) is typ and f.attr in names:
                    try:
                        return getattr(o, f.attr)(*args, **kw)
                    except (KeyError, IndexError, ValueError) as exc:
                        raise Raised(type(exc).__name__)
            raise Unsupported(f'method {f.attr} of {type(o).__name__}')
        raise Unsupported('call form')

    def inline(self, fn: Any, args: List[Any], kw: Dict[str, Any], self_obj: Any) -> Any:
        params = [a.arg for a in fn.args.args]
        if fn.args.vararg or fn.args.kwarg or fn.args.posonlyargs:
            raise Unsupported('helper signature')
        env: Dict[str, Any] = {}
        if self_obj is not None or (params and params[0] in ('self', 'cls') and self_obj is None and 'self' in self.env and len(args) < len(params)):
            env[params[0]] = self_obj if self_obj is not None else self.env['self']
            params = params[1:]
        defaults = fn.args.defaults
        for p, d in zip(params[len(params) - len(defaults):], defaults):
            env[p] = self.ev(d)
        for p, a in zip(params, args):
            env[p] = a
        for k, v in kw.items():
            if k not in params and k not in [a.arg for a in fn.args.kwonlyargs]:
                raise Unsupported('unknown keyword')
            env[k] = v
        for a, d in zip(fn.args.kwonlyargs, fn.args.kw_defaults):
            if a.arg not in env:
                if d is None:
                    raise Unsupported('missing keyword-only argument')
                env[a.arg] = self.ev(d)
        if any(p not in env for p in params):
            raise Unsupported('missing argument')
        sub = MiniEval(env, self.funcs, self.methods)
        sub.fuel = self.fuel
        for g, v in self.env.items():
            if g not in env and (g.isupper() or isinstance(v, Obj) and g != 'self'):
                sub.env[g] = v           # module constants (and module stand-ins such as `os`) passed down
        r = sub.run(fn.body)
        self.fuel = sub.fuel
        return r


def _load(t: ast.AST) -> ast.AST:
    c = ast.parse(ast.unparse(t), mode='eval').body
    return c
