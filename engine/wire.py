"""E2 - wire-effect extraction for binary readers/writers.

`extract(fn)` walks a function in source order and returns a list of items:
    Atom            one struct-format read or write (with the set of format variants it may use)
    ('alt', [...])  branches whose test could not be decided under the given configuration
    ('star', [...]) loop body
Tests that depend only on configuration variables (version gates, layout flags) are decided by a small
finite-domain evaluator, so that for a concrete configuration a reader and a writer each reduce to a slot
sequence that can be compared exactly.

Recognised read atoms : struct.unpack / unpack_from / iter_unpack(F, ..), S.unpack*/iter_unpack(..), struct_read(F, f),
                        read_array(F, ..), f.read(n) (raw bytes), read_nullstr(f)
Recognised write atoms: struct.pack(F, ..), S.pack(..), write_array(F, ..), f.write(<bytes literal>), defer.defer(k, F)
Format expressions    : literals, f-strings/concatenation/repetition with counts (-> starred slot), local aliases,
                        module constants and struct.Struct objects, class constants (cls.X / self.X / Class.X),
                        layout-table lookups self.lump_layout['K'] (-> the variant of the configured layout), IfExp.
Anything else used as a format raises AnalysisError (exit 2).
"""
from __future__ import annotations

import ast
import re
import re
import struct
from typing import Any, Callable, Dict, List, Optional, Sequence, Set, Tuple, Union

from .fold import EnumMember, EnumTable, Folder, FoldError, StructFmt
from .model import AnalysisError, Module, dotted, walk_no_nested

READ_FUNCS = {'unpack', 'unpack_from', 'iter_unpack'}


def expand(fmt: str) -> str:
    """Canonical slot string: byte-order prefix dropped, counts expanded ('3f' -> 'fff', '4s' -> 's4;', 'x' kept)."""
    f = fmt.replace(' ', '')
    if f and f[0] in '<>=!@':
        f = f[1:]
    out = []
    for cnt, code in re.findall(r'(\d*)([a-zA-Z?])', f):
        n = int(cnt) if cnt else 1
        if code in 'sp':
            out.append(f's{n};')
        else:
            out.append(code * n)
    return ''.join(out)


def value_count(fmt: str) -> int:
    f = fmt.replace(' ', '')
    if f and f[0] in '<>=!@':
        f = f[1:]
    n = 0
    for cnt, code in re.findall(r'(\d*)([a-zA-Z?])', f):
        c = int(cnt) if cnt else 1
        if code == 'x':
            continue
        n += 1 if code in 'sp' else c
    return n


def byte_size(fmt: str) -> int:
    f = fmt if fmt and fmt[0] in '<>=!' else '<' + fmt.lstrip('@')
    return struct.calcsize(f)


class Atom:
    def __init__(self, direction: str, fmts: List[str], node: ast.AST, names: Optional[List[str]] = None, star: bool = False,
                 ident: Optional[str] = None) -> None:
        self.dir = direction
        self.fmts = fmts            # format variants (usually exactly one under a configuration)
        self.node = node
        self.names = names          # reader: unpack target names; writer: source text of the packed arguments
        self.star = star            # counted/repeated format: slot string is repeated an unknown number of times
        self.ident = ident          # layout key etc.
        self.tag: str = '?'         # which lump / stream the bytes come from or go to

    def slots(self) -> str:
        if len(self.fmts) != 1:
            raise AnalysisError(f'line {getattr(self.node, "lineno", 0)}: format has {len(self.fmts)} variants under this configuration')
        s = expand(self.fmts[0])
        return f'({s})*' if self.star else s

    def __repr__(self) -> str:
        return f'<{self.dir} {self.fmts}{"*" if self.star else ""}>'


Item = Union[Atom, Tuple[str, Any]]


class Config:
    """Values of configuration variables (by source text of the expression) for gate evaluation."""

    def __init__(self, values: Dict[str, Any], layout: Optional[str] = None) -> None:
        self.values = values
        self.layout = layout

    def __repr__(self) -> str:
        return f'Config({self.values}, layout={self.layout})'


UNKNOWN = object()


class Extractor:
    def __init__(self, mod: Module, folder: Folder, config: Optional[Config] = None, cls: Optional[str] = None,
                 inline: Optional[Dict[str, ast.AST]] = None, member_props: Optional[Dict[str, Callable[[Any], Any]]] = None) -> None:
        self.mod, self.folder, self.cfg, self.cls = mod, folder, config or Config({}), cls
        self.inline = inline or {}
        self.member_props = member_props or {}
        self.local_fmt: Dict[str, ast.AST] = {}
        self.env: Dict[str, Any] = {}
        self.depth = 0

    # ---- configuration evaluator -------------------------------------------------------------------------
    def ev(self, e: ast.AST) -> Any:
        src = ast.unparse(e)
        if src in self.cfg.values:
            return self.cfg.values[src]
        if isinstance(e, ast.Name) and e.id in self.env:
            return self.env[e.id]
        if isinstance(e, ast.Constant):
            return e.value
        if isinstance(e, ast.UnaryOp) and isinstance(e.op, ast.Not):
            v = self.ev(e.operand)
            return UNKNOWN if v is UNKNOWN else (not v)
        if isinstance(e, ast.IfExp):
            t = self.ev(e.test)
            if t is UNKNOWN:
                return UNKNOWN
            return self.ev(e.body if t else e.orelse)
        if isinstance(e, ast.BoolOp):
            vals = [self.ev(v) for v in e.values]
            if isinstance(e.op, ast.And):
                if any(v is not UNKNOWN and not v for v in vals):
                    return False
                return UNKNOWN if any(v is UNKNOWN for v in vals) else True
            if any(v is not UNKNOWN and bool(v) for v in vals):
                return True
            return UNKNOWN if any(v is UNKNOWN for v in vals) else False
        if isinstance(e, ast.Compare) and len(e.ops) == 1:
            l, r = self.ev(e.left), self.ev(e.comparators[0])
            if l is UNKNOWN or r is UNKNOWN:
                return UNKNOWN
            op = e.ops[0]
            lv = l.value if isinstance(l, EnumMember) and not isinstance(r, EnumMember) and isinstance(r, (int, tuple, list)) else l
            try:
                if isinstance(op, ast.Eq):
                    return lv == r
                if isinstance(op, ast.NotEq):
                    return lv != r
                if isinstance(op, ast.Lt):
                    return lv < r
                if isinstance(op, ast.LtE):
                    return lv <= r
                if isinstance(op, ast.Gt):
                    return lv > r
                if isinstance(op, ast.GtE):
                    return lv >= r
                if isinstance(op, ast.In):
                    return lv in r
                if isinstance(op, ast.NotIn):
                    return lv not in r
                if isinstance(op, ast.Is):
                    return l == r if isinstance(l, EnumMember) or isinstance(r, EnumMember) else l is r
                if isinstance(op, ast.IsNot):
                    return not (l == r) if isinstance(l, EnumMember) or isinstance(r, EnumMember) else l is not r
            except TypeError:
                return UNKNOWN
        if isinstance(e, (ast.Tuple, ast.List)):
            vals = [self.ev(x) for x in e.elts]
            return UNKNOWN if any(v is UNKNOWN for v in vals) else tuple(vals)
        if isinstance(e, ast.Attribute):
            base = self.ev(e.value)
            if isinstance(base, EnumMember):
                if e.attr in self.member_props:
                    return self.member_props[e.attr](base)
                if e.attr == 'name':
                    return base.name
                if e.attr == 'value':
                    return base.value
            if isinstance(base, EnumTable) and e.attr in base.members:
                return base.members[e.attr]
            if base is UNKNOWN or base is None:
                # maybe a module-level enum: VERSIONS.X
                try:
                    v = self.folder.fold(e, {})
                    return v
                except (FoldError, AnalysisError):
                    return UNKNOWN
            return UNKNOWN
        if isinstance(e, ast.Name):
            try:
                v = self.folder.global_(e.id)
                if isinstance(v, (int, str, bytes, EnumTable, EnumMember, float, tuple)):
                    return v
            except (FoldError, AnalysisError):
                pass
            return UNKNOWN
        if isinstance(e, ast.BinOp):
            l, r = self.ev(e.left), self.ev(e.right)
            if l is UNKNOWN or r is UNKNOWN:
                return UNKNOWN
            try:
                if isinstance(e.op, ast.Add):
                    return l + r
                if isinstance(e.op, ast.Sub):
                    return l - r
                if isinstance(e.op, ast.Mult):
                    return l * r
                if isinstance(e.op, ast.BitAnd):
                    return l & r
                if isinstance(e.op, ast.BitOr):
                    return l | r
            except TypeError:
                return UNKNOWN
        return UNKNOWN

    # ---- formats -----------------------------------------------------------------------------------------------
    def fmt_of(self, e: ast.AST, fn: ast.AST, depth: int = 0) -> Tuple[List[str], bool, Optional[str]]:
        """(variants, star, identity)"""
        if depth > 6:
            raise AnalysisError('format expression too deep')
        if isinstance(e, ast.Constant) and isinstance(e.value, str):
            return [e.value], False, None
        if isinstance(e, ast.IfExp):
            t = self.ev(e.test)
            if t is UNKNOWN:
                a, sa, _ = self.fmt_of(e.body, fn, depth + 1)
                b, sb, _ = self.fmt_of(e.orelse, fn, depth + 1)
                return a + b, sa or sb, None
            return self.fmt_of(e.body if t else e.orelse, fn, depth + 1)
        if isinstance(e, ast.Subscript) and dotted(e.value) in ('self.lump_layout', 'bsp.lump_layout') and isinstance(e.slice, ast.Constant):
            key = e.slice.value
            layouts = [self.cfg.layout] if self.cfg.layout else [n for n in self.mod.text.split() if False]
            if not self.cfg.layout:
                layouts = sorted({st.target.id if isinstance(st, ast.AnnAssign) else st.targets[0].id for st in self.mod.tree.body
                                  if isinstance(st, (ast.Assign, ast.AnnAssign)) and ast.unparse(st.target if isinstance(st, ast.AnnAssign) else st.targets[0]).startswith('LUMP_LAYOUT_')})
            out = []
            for ln in layouts:
                tbl = self.folder.global_(ln)
                v = tbl[key]
                out.append(v.fmt if isinstance(v, StructFmt) else v)
            return [o for o in out if isinstance(o, str)], False, f'layout:{key}'
        if isinstance(e, ast.Attribute) and e.attr == 'format' :
            return self.fmt_of(e.value, fn, depth + 1)
        if isinstance(e, ast.Subscript) and isinstance(e.value, ast.Attribute) and e.value.attr == 'format' and isinstance(e.slice, ast.Constant):
            v, st, ident = self.fmt_of(e.value.value, fn, depth + 1)
            return [x[e.slice.value] for x in v], st, ident
        if isinstance(e, ast.Name):
            if e.id in self.local_fmt:
                return self.fmt_of(self.local_fmt[e.id], fn, depth + 1)
            defs = [n.value for n in walk_no_nested(fn) if isinstance(n, ast.Assign) and len(n.targets) == 1 and isinstance(n.targets[0], ast.Name) and n.targets[0].id == e.id]
            if len(defs) == 1:
                return self.fmt_of(defs[0], fn, depth + 1)
            if len(defs) > 1:
                # chosen under configuration gates: take the definition(s) whose guards hold
                outs: List[str] = []
                star = False
                for d in defs:
                    v, s, _ = self.fmt_of(d, fn, depth + 1)
                    outs += v
                    star = star or s
                return outs, star, None
            try:
                v = self.folder.global_(e.id)
            except (FoldError, AnalysisError) as exc:
                raise AnalysisError(f'{self.mod.relpath}:{e.lineno}: cannot resolve format name {e.id}: {exc}')
            if isinstance(v, StructFmt):
                return [v.fmt], False, e.id
            if isinstance(v, str):
                return [v], False, e.id
            raise AnalysisError(f'{self.mod.relpath}:{e.lineno}: {e.id} is not a format')
        if isinstance(e, ast.Attribute):
            base = dotted(e.value)
            cands = []
            if base in ('self', 'cls') and self.cls:
                cands.append(self.cls)
            elif base and self.mod.has_class(base):
                cands.append(base)
            for c in cands:
                from .model import mro
                for k in mro(self.mod, c):
                    try:
                        v = self.folder.fold(self.mod.class_assign(k, e.attr), {})
                    except AnalysisError:
                        continue
                    if isinstance(v, StructFmt):
                        return [v.fmt], False, f'{k}.{e.attr}'
                    if isinstance(v, str):
                        return [v], False, f'{k}.{e.attr}'
            raise AnalysisError(f'{self.mod.relpath}:{e.lineno}: cannot resolve format attribute `{ast.unparse(e)}`')
        if isinstance(e, ast.Call) and dotted(e.func) in ('struct.Struct', 'Struct', '_cached_struct') and e.args:
            return self.fmt_of(e.args[0], fn, depth + 1)
        if isinstance(e, ast.Call) and dotted(e.func) == 'str' and len(e.args) == 1:
            v = self.ev(e.args[0])
            if isinstance(v, int) and not isinstance(v, bool):
                return [str(v)], False, None
            return [''], True, None          # a computed repeat count
        if isinstance(e, ast.BinOp) and isinstance(e.op, ast.Add):
            a, sa, _ = self.fmt_of(e.left, fn, depth + 1)
            b, sb, _ = self.fmt_of(e.right, fn, depth + 1)
            return [x + y.lstrip('<>=!@') for x in a for y in b], sa or sb, None
        if isinstance(e, ast.BinOp) and isinstance(e.op, ast.Mult):
            # fmt * n  (n unknown) -> starred
            for fm, cnt in ((e.left, e.right), (e.right, e.left)):
                try:
                    v, _, ident = self.fmt_of(fm, fn, depth + 1)
                    return v, True, ident
                except AnalysisError:
                    continue
            raise AnalysisError(f'{self.mod.relpath}:{e.lineno}: cannot resolve repeated format `{ast.unparse(e)}`')
        if isinstance(e, ast.BinOp) and isinstance(e.op, ast.Mod) and isinstance(e.left, ast.Constant) and isinstance(e.left.value, str):
            # '<%di %dx' % (a, b): the same as the f-string f'<{a}i {b}x' (single-assignment locals stand for their definitions)
            args_ = list(e.right.elts) if isinstance(e.right, ast.Tuple) else [e.right]
            pieces_ = re.split(r'%[di]', e.left.value)
            if len(pieces_) == len(args_) + 1 and '%' not in ''.join(pieces_):
                def _res(a_: ast.AST) -> ast.AST:
                    class _Sub(ast.NodeTransformer):
                        def visit_Name(s_, node: ast.Name) -> ast.AST:          # noqa: N805
                            ds_ = [x.value for x in walk_no_nested(fn) if isinstance(x, ast.Assign) and any(isinstance(t, ast.Name) and t.id == node.id for t in x.targets)]
                            if len(ds_) == 1 and isinstance(ds_[0], ast.BinOp):
                                return ds_[0]
                            return node
                    import copy as _copy
                    return _Sub().visit(_copy.deepcopy(a_)) if not isinstance(a_, ast.Name) else a_
                vals_: List[ast.AST] = []
                for i_, pc_ in enumerate(pieces_):
                    if pc_:
                        vals_.append(ast.Constant(value=pc_))
                    if i_ < len(args_):
                        vals_.append(ast.FormattedValue(value=_res(args_[i_]), conversion=-1, format_spec=None))
                js_ = ast.JoinedStr(values=vals_)
                ast.copy_location(js_, e)
                ast.fix_missing_locations(js_)
                return self.fmt_of(js_, fn, depth + 1)
        if isinstance(e, ast.JoinedStr):
            # padded fixed array idiom: f'<{n}i {4*(N-n)}x' == N slots of 'i'
            fv = [v for v in e.values if isinstance(v, ast.FormattedValue)]
            lits = [str(v.value) for v in e.values if isinstance(v, ast.Constant)]
            if len(fv) == 2 and isinstance(fv[0].value, ast.Name) and isinstance(fv[1].value, ast.BinOp) and isinstance(fv[1].value.op, ast.Mult):
                m = fv[1].value
                size, diff = (m.left, m.right) if isinstance(m.left, ast.Constant) else (m.right, m.left)
                if isinstance(size, ast.Constant) and isinstance(diff, ast.BinOp) and isinstance(diff.op, ast.Sub) and dotted(diff.right) == fv[0].value.id:
                    total = self.ev(diff.left)
                    codes = ''.join(lits).replace('<', '').replace(' ', '')
                    if isinstance(total, int) and len(codes) == 2 and codes[1] == 'x' and struct.calcsize('<' + codes[0]) == size.value:
                        return [f'<{total}{codes[0]}'], False, None
            txt = ''
            star = False
            vals = list(e.values)
            for i, v in enumerate(vals):
                if isinstance(v, ast.Constant):
                    txt += str(v.value)
                    continue
                val = self.ev(v.value) if isinstance(v, ast.FormattedValue) else UNKNOWN
                if isinstance(val, bool):
                    val = UNKNOWN
                if isinstance(val, (int, str)):
                    txt += str(val)
                    continue
                nxt = vals[i + 1] if i + 1 < len(vals) else None
                if isinstance(nxt, ast.Constant) and re.match(r'^[a-zA-Z?]', str(nxt.value)):
                    star = True          # an unknown repeat count in front of a code
                    continue
                raise AnalysisError(f'{self.mod.relpath}:{e.lineno}: format f-string contains `{ast.unparse(v.value) if isinstance(v, ast.FormattedValue) else "?"}` which is neither a count nor a known code')
            return [txt], star, None
        raise AnalysisError(f'{self.mod.relpath}:{getattr(e, "lineno", 0)}: expression used as a struct format is not an enumerated idiom: `{ast.unparse(e)[:80]}`')

    # ---- statements ----------------------------------------------------------------------------------------------
    def extract(self, fn: ast.AST) -> List[Item]:
        prev_ = getattr(self, '_cur_fn', None)
        if prev_ is None:
            self._cur_fn = fn       # type: ignore[attr-defined]
        try:
            return self.block(getattr(fn, 'body'), fn)
        finally:
            if prev_ is None:
                self._cur_fn = None       # type: ignore[attr-defined]

    def block(self, stmts: Sequence[ast.stmt], fn: ast.AST) -> List[Item]:
        out: List[Item] = []
        stmts = list(stmts)
        for i, st in enumerate(stmts):
            # guard clause in a loop body: `if c: ...; continue` followed by more statements - those run only when c is false
            if isinstance(st, ast.If) and not st.orelse and st.body and (isinstance(st.body[-1], ast.Continue) or (isinstance(st.body[-1], ast.Return) and self.depth > 0)) and i + 1 < len(stmts):
                synth = ast.If(test=st.test, body=st.body, orelse=stmts[i + 1:])
                ast.copy_location(synth, st)
                out += self.stmt(synth, fn)
                break
            out += self.stmt(st, fn)
            if isinstance(st, (ast.Return, ast.Raise)):
                break
        return out

    def stmt(self, st: ast.stmt, fn: ast.AST) -> List[Item]:
        if isinstance(st, ast.If):
            t = self.ev(st.test)
            if t is UNKNOWN:
                a = self.block(st.body, fn)
                b = self.block(st.orelse, fn)
                if not a and not b:
                    return []
                return [('alt', [a, b])]
            return self.block(st.body if t else st.orelse, fn)
        if isinstance(st, (ast.For, ast.AsyncFor)):
            head = self.expr_atoms(st.iter, fn, bind=st.target)
            body = self.block(st.body, fn)
            # an iter_unpack in the loop header *is* the per-iteration read
            if head and all(isinstance(h, Atom) and getattr(h, 'iterating', False) for h in head):
                return [('star', head + body)]
            return head + ([('star', body)] if body else [])
        if isinstance(st, ast.While):
            body = self.block(st.body, fn)
            return self.expr_atoms(st.test, fn) + ([('star', body)] if body else [])
        if isinstance(st, (ast.With, ast.AsyncWith)):
            out: List[Item] = []
            for it in st.items:
                out += self.expr_atoms(it.context_expr, fn)
            return out + self.block(st.body, fn)
        if isinstance(st, ast.Try):
            out2 = self.block(st.body, fn)
            for h in st.handlers:
                hb = self.block(h.body, fn)
                if hb:
                    out2.append(('alt', [hb, []]))
            return out2 + self.block(st.orelse, fn) + self.block(st.finalbody, fn)
        if isinstance(st, ast.Assign):
            # configuration-dependent rebinding: `vers_num = 7` under a decided gate
            if len(st.targets) == 1 and isinstance(st.targets[0], ast.Name):
                v = self.ev(st.value)
                name = st.targets[0].id
                if v is not UNKNOWN and not isinstance(v, (EnumTable,)) and (name in self.env or ast.unparse(st.targets[0]) in self.cfg.values or isinstance(v, (int, bool, EnumMember))):
                    if isinstance(st.value, (ast.Constant, ast.Attribute, ast.Name, ast.IfExp, ast.Compare, ast.BoolOp, ast.UnaryOp)):
                        self.env[name] = v
                        if name in self.cfg.values:
                            self.cfg.values[name] = v
            return self.expr_atoms(st.value, fn, bind=st.targets[0] if len(st.targets) == 1 else None)
        if isinstance(st, (ast.AnnAssign, ast.AugAssign)):
            return self.expr_atoms(st.value, fn) if st.value is not None else []
        if isinstance(st, (ast.Expr, ast.Return)):
            return self.expr_atoms(st.value, fn) if st.value is not None else []
        if isinstance(st, ast.Raise):
            return []
        if isinstance(st, (ast.Assert, ast.Pass, ast.Break, ast.Continue, ast.Delete, ast.Global, ast.Nonlocal, ast.Import, ast.ImportFrom)):
            return []
        if isinstance(st, (ast.FunctionDef, ast.ClassDef, ast.AsyncFunctionDef)):
            return []
        raise AnalysisError(f'{self.mod.relpath}:{st.lineno}: statement kind {type(st).__name__} not handled by the wire extractor')

    def names_of(self, t: Optional[ast.AST]) -> Optional[List[str]]:
        if t is None:
            return None
        if isinstance(t, ast.Name) and getattr(self, '_cur_fn', None) is not None:
            # the record is bound whole (`for rec in fmt.iter_unpack(data)`) and taken apart later: `(a, b, c) = rec`, possibly in several
            # arms of tests on the layout - the arm that is live under this configuration names the slots
            live: List[List[str]] = []
            for a_ in ast.walk(self._cur_fn):
                if isinstance(a_, ast.Assign) and len(a_.targets) == 1 and isinstance(a_.targets[0], (ast.Tuple, ast.List)) and isinstance(a_.value, ast.Name) and a_.value.id == t.id \
                        and not any(isinstance(e_, ast.Starred) for e_ in a_.targets[0].elts):
                    ok_ = True
                    ch_: ast.AST = a_
                    an_ = self.mod.parents.get(ch_)
                    while an_ is not None and an_ is not self._cur_fn and ok_:
                        if isinstance(an_, ast.If):
                            tv = self.ev(an_.test)
                            if tv is UNKNOWN:
                                ok_ = False
                            elif bool(tv) != any(ch_ is b_ for b_ in an_.body):
                                ok_ = False
                        ch_, an_ = an_, self.mod.parents.get(an_)
                    if ok_:
                        live.append([ast.unparse(e_) for e_ in a_.targets[0].elts])
            if len(live) == 1:
                return live[0]
            return None
        if isinstance(t, (ast.Tuple, ast.List)):
            out = []
            for e in t.elts:
                if isinstance(e, ast.Starred):
                    return None
                out.append(ast.unparse(e))
            return out
        return None

    def expr_atoms(self, e: Optional[ast.AST], fn: ast.AST, bind: Optional[ast.AST] = None) -> List[Item]:
        """Atoms of an expression in evaluation order (depth-first, arguments before the call)."""
        if e is None:
            return []
        out: List[Item] = []
        if isinstance(e, (ast.ListComp, ast.SetComp, ast.GeneratorExp, ast.DictComp)):
            inner: List[Item] = []
            for g in e.generators:
                inner += self.expr_atoms(g.iter, fn, bind=g.target)
                for c in g.ifs:
                    inner += self.expr_atoms(c, fn)
            if isinstance(e, ast.DictComp):
                inner += self.expr_atoms(e.key, fn) + self.expr_atoms(e.value, fn)
            else:
                inner += self.expr_atoms(e.elt, fn)
            return [('star', inner)] if inner else []
        if isinstance(e, ast.IfExp):
            t = self.ev(e.test)
            if t is UNKNOWN:
                a, b = self.expr_atoms(e.body, fn), self.expr_atoms(e.orelse, fn)
                return self.expr_atoms(e.test, fn) + ([('alt', [a, b])] if a or b else [])
            return self.expr_atoms(e.body if t else e.orelse, fn)
        if isinstance(e, ast.Call):
            atom = self.call_atom(e, fn, bind)
            # arguments first (nested packs: buf.write(struct.pack(...)))
            skip_first = atom is not None and not isinstance(atom, list)
            zipped = dotted(e.func) == 'zip' and isinstance(bind, (ast.Tuple, ast.List)) and len(bind.elts) == len(e.args) and not e.keywords
            for i, a in enumerate(e.args):
                if isinstance(a, ast.Starred):
                    a = a.value
                # `for rec, extra in zip(fmt.iter_unpack(data), other)`: each argument is bound to its element of the loop target
                out += self.expr_atoms(a, fn, bind=bind.elts[i]) if zipped else self.expr_atoms(a, fn)
            for k in e.keywords:
                out += self.expr_atoms(k.value, fn)
            if isinstance(e.func, ast.Attribute):
                out += self.expr_atoms(e.func.value, fn)
            if isinstance(atom, list):
                out += atom
            elif atom is not None:
                out.append(atom)
            return out
        for ch in ast.iter_child_nodes(e):
            if isinstance(ch, (ast.expr,)):
                out += self.expr_atoms(ch, fn)
            elif isinstance(ch, ast.comprehension):
                pass
        return out

    def call_atom(self, c: ast.Call, fn: ast.AST, bind: Optional[ast.AST]) -> Any:
        a = self._call_atom(c, fn, bind)
        if isinstance(a, Atom):
            a.tag = self.tag_of(a, c, fn)
        return a

    # ---- source / sink tags ---------------------------------------------------------------------------------------
    def _lump_of(self, e: ast.AST) -> Optional[str]:
        if isinstance(e, ast.Attribute) and e.attr == 'data' and isinstance(e.value, ast.Subscript) and dotted(e.value.value) in ('self.lumps', 'self.game_lumps'):
            return ast.unparse(e.value.slice).split('.')[-1]
        return None

    def _data_tag(self, e: ast.AST, fn: ast.AST, depth: int = 0) -> str:
        l = self._lump_of(e)
        if l:
            return l
        if isinstance(e, ast.Call) and dotted(e.func) in ('BytesIO', 'io.BytesIO', 'memoryview', 'bytes') and e.args:
            return self._data_tag(e.args[0], fn, depth + 1)
        if isinstance(e, ast.Subscript):
            return self._data_tag(e.value, fn, depth + 1)
        if isinstance(e, ast.Name):
            params = [a.arg for a in fn.args.args] if hasattr(fn, 'args') else []
            if e.id in params:
                return 'main' if e.id not in ('self', 'cls') else '?'
            if depth < 4:
                defs = [n.value for n in walk_no_nested(fn) if isinstance(n, ast.Assign) and len(n.targets) == 1 and isinstance(n.targets[0], ast.Name) and n.targets[0].id == e.id]
                if len(defs) == 1:
                    return self._data_tag(defs[0], fn, depth + 1)
            return 'var:' + e.id
        return '?'

    def _sink_of_var(self, name: str, fn: ast.AST, depth: int = 0) -> str:
        # inside an inlined helper a parameter is the caller's buffer (`_write_block(phys_buf, ...)`)
        ps_ = getattr(self, '_param_sinks', None)
        if ps_ and name in ps_[-1] and depth == 0:
            return ps_[-1][name]
        # a local that only holds packed bytes on their way into a buffer (`packed = fmt.pack(...); buf.write(packed)`) goes where the buffer goes
        if depth < 3:
            for n in walk_no_nested(fn):
                if isinstance(n, ast.Call) and isinstance(n.func, ast.Attribute) and n.func.attr in ('write', 'append', 'extend') and len(n.args) == 1 and dotted(n.args[0]) == name \
                        and isinstance(n.func.value, ast.Name) and n.func.value.id != name:
                    r = self._sink_of_var(n.func.value.id, fn, depth + 1)
                    if not r.startswith('var:'):
                        return r
        for n in walk_no_nested(fn):
            if isinstance(n, ast.Assign):
                for t in n.targets:
                    l = self._lump_of(t)
                    if l and any(isinstance(x, ast.Name) and x.id == name for x in ast.walk(n.value)):
                        return l
            if isinstance(n, (ast.Return, ast.Yield, ast.YieldFrom)) and n.value is not None and any(isinstance(x, ast.Name) and x.id == name for x in ast.walk(n.value)):
                return 'main'
        return 'var:' + name

    def tag_of(self, a: 'Atom', c: ast.Call, fn: ast.AST) -> str:
        if a.dir == 'r':
            f = c.func
            d = dotted(f) or ''
            short = f.attr if isinstance(f, ast.Attribute) else d
            if short in ('struct_read', 'unpack', 'unpack_from', 'iter_unpack', 'read_array'):
                is_mod_fn = d.startswith('struct.') or isinstance(f, ast.Name)
                idx = 1 if is_mod_fn else 0
                if len(c.args) > idx:
                    return self._data_tag(c.args[idx], fn)
            return '?'
        if isinstance(c.func, ast.Attribute) and c.func.attr == 'defer':
            recv = dotted(c.func.value)
            if recv:
                defs = [n.value for n in walk_no_nested(fn) if isinstance(n, ast.Assign) and len(n.targets) == 1 and dotted(n.targets[0]) == recv]
                if len(defs) == 1 and isinstance(defs[0], ast.Call) and defs[0].args and isinstance(defs[0].args[0], ast.Name):
                    return self._sink_of_var(defs[0].args[0].id, fn)
        # writers: climb to the consumer of the packed bytes
        cur: ast.AST = c
        for _ in range(12):
            p = self.mod.parents.get(cur)
            if p is None:
                break
            if isinstance(p, ast.Call) and isinstance(p.func, ast.Attribute) and p.func.attr in ('write', 'append', 'extend') and cur in p.args:
                recv = dotted(p.func.value)
                if recv:
                    return self._sink_of_var(recv.split('.')[-1], fn) if '.' not in recv else recv
            if isinstance(p, (ast.Yield, ast.YieldFrom, ast.Return)):
                return 'main'
            if isinstance(p, ast.Assign):
                for t in p.targets:
                    l = self._lump_of(t)
                    if l:
                        return l
                    if isinstance(t, ast.Name):
                        return self._sink_of_var(t.id, fn)
            if isinstance(p, ast.AugAssign) and isinstance(p.target, ast.Name):
                return self._sink_of_var(p.target.id, fn)
            if isinstance(p, ast.stmt):
                break
            cur = p
        return '?'

    def _call_atom(self, c: ast.Call, fn: ast.AST, bind: Optional[ast.AST]) -> Any:
        f = c.func
        d = dotted(f) or ''
        short = f.attr if isinstance(f, ast.Attribute) else d
        # struct.pack / unpack family on the module
        if d in ('struct.pack', 'pack') and c.args:
            v, star, ident = self.fmt_of(c.args[0], fn)
            return Atom('w', v, c, [ast.unparse(a) for a in c.args[1:]], star, ident)
        if d in ('struct.unpack', 'struct.unpack_from', 'struct.iter_unpack', 'unpack', 'unpack_from', 'iter_unpack', 'struct_read') and c.args:
            v, star, ident = self.fmt_of(c.args[0], fn)
            a = Atom('r', v, c, self.names_of(bind), star or short == 'iter_unpack', ident)
            a.iterating = short == 'iter_unpack'     # type: ignore[attr-defined]
            return a
        if short == 'read_array' and isinstance(f, ast.Name) and c.args:
            v, star, ident = self.fmt_of(c.args[0], fn)
            return Atom('r', v, c, None, True, ident)
        if short == 'write_array' and isinstance(f, ast.Name) and c.args:
            v, star, ident = self.fmt_of(c.args[0], fn)
            return Atom('w', v, c, None, True, ident)
        if isinstance(f, ast.Attribute) and f.attr in ('pack',) and not d.startswith('struct.'):
            try:
                v, star, ident = self.fmt_of(f.value, fn)
            except AnalysisError:
                return None
            return Atom('w', v, c, [ast.unparse(a) for a in c.args], star, ident)
        if isinstance(f, ast.Attribute) and f.attr in READ_FUNCS and not d.startswith('struct.'):
            try:
                v, star, ident = self.fmt_of(f.value, fn)
            except AnalysisError:
                return None
            a = Atom('r', v, c, self.names_of(bind), star or f.attr == 'iter_unpack', ident)
            a.iterating = f.attr == 'iter_unpack'    # type: ignore[attr-defined]
            return a
        if isinstance(f, ast.Attribute) and f.attr == 'defer' and len(c.args) >= 2:
            # DeferredWrites.defer(key, fmt, write=False): only `write=True` occupies space in the file here
            wr = c.args[2] if len(c.args) > 2 else next((k.value for k in c.keywords if k.arg == 'write'), None)
            if not (isinstance(wr, ast.Constant) and wr.value is True):
                if wr is None or (isinstance(wr, ast.Constant) and wr.value is False):
                    return None
                raise AnalysisError(f'{self.mod.relpath}:{c.lineno}: defer(..., write=<non-constant>)')
            v, star, ident = self.fmt_of(c.args[1], fn)
            return Atom('w', v, c, None, star, ident)
        # inlined helpers
        name = f.attr if isinstance(f, ast.Attribute) and dotted(f.value) in ('self', 'cls') else (f.id if isinstance(f, ast.Name) else None)
        if name and name in self.inline and self.depth < 3:
            self.depth += 1
            hfn = self.inline[name]
            hparams = [a.arg for a in hfn.args.args]
            if hparams and hparams[0] in ('self', 'cls') and isinstance(f, ast.Attribute):
                hparams = hparams[1:]
            sinks: Dict[str, str] = {}
            for i_, a_ in enumerate(c.args[:len(hparams)]):
                if isinstance(a_, ast.Name):
                    t_ = self._sink_of_var(a_.id, fn)
                    if not t_.startswith('var:'):
                        sinks[hparams[i_]] = t_
            if not hasattr(self, '_param_sinks'):
                self._param_sinks = []       # type: ignore[attr-defined]
            self._param_sinks.append(sinks)       # type: ignore[attr-defined]
            try:
                return self.extract(hfn)
            finally:
                self._param_sinks.pop()       # type: ignore[attr-defined]
                self.depth -= 1
        return None


def flatten(items: Sequence[Item]) -> str:
    """Slot string of a fully decided item list; alternatives must already be gone (else AnalysisError)."""
    out = []
    for it in items:
        if isinstance(it, Atom):
            out.append(it.slots())
        elif it[0] == 'star':
            inner = flatten(it[1])
            if inner:
                out.append(f'({inner})*')
        elif it[0] == 'alt':
            a, b = flatten(it[1][0]), flatten(it[1][1])
            if a == b:
                out.append(a)
            else:
                out.append(f'[{a}|{b}]')
    return ''.join(out)


def atoms(items: Sequence[Item]) -> List[Atom]:
    out: List[Atom] = []
    for it in items:
        if isinstance(it, Atom):
            out.append(it)
        elif it[0] == 'star':
            out += atoms(it[1])
        elif it[0] == 'alt':
            for br in it[1]:
                out += atoms(br)
    return out


def simplify(slot_string: str) -> str:
    """Normalise nested stars of a single record: ((abc)*)* -> (abc)*"""
    prev = None
    s = slot_string
    while prev != s:
        prev = s
        s = re.sub(r'\(\(([^()]*)\)\*\)\*', r'(\1)*', s)
        s = re.sub(r'\(\[([^\[\]|()]*)\|\]\)\*', r'(\1)*', s)       # ([X|])* == (X)*
    return s


def by_tag(items: Sequence[Item], tag: str) -> List[Item]:
    """The sub-structure of an item list that touches one source/sink."""
    out: List[Item] = []
    for it in items:
        if isinstance(it, Atom):
            if it.tag == tag:
                out.append(it)
        elif it[0] == 'star':
            inner = by_tag(it[1], tag)
            if inner:
                out.append(('star', inner))
        elif it[0] == 'alt':
            brs = [by_tag(b, tag) for b in it[1]]
            if any(brs):
                out.append(('alt', brs))
    return out


def tags(items: Sequence[Item]) -> Set[str]:
    return {a.tag for a in atoms(items)}
