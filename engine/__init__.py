"""Shared static-analysis engine for the srctools property checks (stdlib only)."""
