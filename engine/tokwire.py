"""E9 - token-level wire extraction for stream readers/writers that do not go through struct alone.

A function body is walked once under a configuration (source text of an expression -> value, decided by the gate evaluator of
engine.wire.Extractor).  Every I/O construct becomes a token; loops become starred groups, undecided branches alternatives:

  S<slots>;     struct read/write:  struct_read(F, f) / binformat.struct_read(F, f) / X.unpack(f.read(X.size)) / X.unpack(f.read(N))
                / `[v] = f.read(1)` / `f.read(1) != b'..'` (one unsigned byte) // f.write(struct.pack(F, ..)) / f.write(X.pack(..))
                / f.write(pack(F, ..)) / f.write(b'\\x01') / f.write(b'\\x01' if c else b'\\x00')
  D;            string-table reference: call of a configured reader callable (from_dict()) // f.write(<configured writer callable>(x))
  Z<enc>;       NUL-terminated string: read_nullstr(..) // f.write(x.encode(E) + b'\\0')
  R<n>; Rvar;   raw byte run of constant / variable size
  @<name>;      call of a sub-record reader / writer that the rule pairs separately (configured name -> label table)

Helper functions named in `inline` are expanded in place with their parameters bound to the caller's argument *source text*
(so configuration keys can refer to them).  Anything that touches the stream and is not recognised is an AnalysisError.
"""
from __future__ import annotations

import ast
import re
from typing import Any, Callable, Dict, List, Optional, Sequence, Tuple

from .fold import Folder, FoldError, StructFmt
from .model import AnalysisError, Module, dotted
from .wire import UNKNOWN, Config, Extractor, expand


class Tok:
    __slots__ = ('text', 'node', 'args', 'names')

    def __init__(self, text: str, node: ast.AST, args: Optional[List[ast.AST]] = None, names: Optional[List[str]] = None) -> None:
        if text.startswith('S') and text.count(';') > 1:
            text = text[:-1].replace(';', ',') + ';'           # `s4;` string slots inside a struct token
        m = re.fullmatch(r'R(\d+);', text)
        if m:
            text = f'Ss{m.group(1)},;'                          # a fixed-size raw run is an `Ns` slot
        self.text, self.node, self.args, self.names = text, node, args, names

    def __repr__(self) -> str:
        return self.text


class TokWire:
    def __init__(self, mod: Module, fold: Folder, values: Dict[str, Any], *, cls: Optional[str] = None, stream: Sequence[str] = ('file',),
                 dict_read: Sequence[str] = (), dict_write: Sequence[str] = (), sub: Optional[Dict[str, str]] = None,
                 inline: Optional[Dict[str, ast.AST]] = None, ignore: Sequence[str] = (), member_props: Optional[Dict[str, Callable[[Any], Any]]] = None) -> None:
        self.mod, self.fold = mod, fold
        self.ex = Extractor(mod, fold, Config(dict(values), None), cls, None, member_props)
        self.env = self.ex.env
        self.cls = cls
        self.stream = set(stream)
        self.dict_read, self.dict_write = set(dict_read), set(dict_write)
        self.sub = sub or {}
        self.inline = inline or {}
        self.ignore = set(ignore)
        self.depth = 0
        self.raised = False
        self.returned = False
        self.packed: Dict[str, ast.Call] = {}

    # ---- formats ------------------------------------------------------------------------------------------------------------
    def struct_fmt(self, e: ast.AST) -> str:
        if isinstance(e, ast.Constant) and isinstance(e.value, str):
            return e.value
        if isinstance(e, ast.JoinedStr):
            raise AnalysisError(f'{self.mod.relpath}:{e.lineno}: computed struct format `{ast.unparse(e)[:40]}`')
        d = dotted(e)
        if d:
            if isinstance(self.env.get(d), str):
                return self.env[d]
            parts = d.split('.')
            try:
                if len(parts) == 1:
                    v = self.fold.global_(parts[0])
                elif parts[0] in ('cls', 'self') and self.cls and len(parts) == 2:
                    v = self.fold.fold(self.mod.class_assign(self.cls, parts[1]), {})
                elif len(parts) == 2 and self.mod.has_class(parts[0]):
                    v = self.fold.fold(self.mod.class_assign(parts[0], parts[1]), {})
                else:
                    v = None
            except (FoldError, AnalysisError, KeyError):
                v = None
            if isinstance(v, StructFmt):
                return v.fmt
            if isinstance(v, str):
                return v
        raise AnalysisError(f'{self.mod.relpath}:{getattr(e, "lineno", 0)}: struct format `{ast.unparse(e)[:40]}` not resolved')

    def is_stream(self, e: ast.AST) -> bool:
        return isinstance(e, ast.Name) and e.id in self.stream

    # ---- expressions ----------------------------------------------------------------------------------------------------------
    def expr(self, e: Optional[ast.AST], bind: Optional[ast.AST] = None) -> List[Any]:
        if e is None:
            return []
        if isinstance(e, (ast.ListComp, ast.GeneratorExp, ast.SetComp, ast.DictComp)):
            # generator k's iterable is evaluated once per iteration of the generators before it: nest accordingly.
            # `for x in [<single expr>]` is a binding, not a loop.
            def nest(gens: List[ast.comprehension]) -> List[Any]:
                if not gens:
                    if isinstance(e, ast.DictComp):
                        return self.expr(e.key) + self.expr(e.value)
                    return self.expr(e.elt)
                g = gens[0]
                head = self.expr(g.iter, g.target)
                inner: List[Any] = []
                for cond in g.ifs:
                    inner += self.expr(cond)
                inner += nest(gens[1:])
                once = isinstance(g.iter, (ast.List, ast.Tuple)) and len(g.iter.elts) == 1
                if once:
                    return head + inner
                return head + ([('star', inner)] if inner else [])
            return nest(list(e.generators))
        if isinstance(e, ast.IfExp):
            t = self.ex.ev(e.test)
            pre = self.expr(e.test)
            if t is UNKNOWN:
                a, b = self.expr(e.body), self.expr(e.orelse)
                return pre + ([('alt', ast.unparse(e.test), a, b, e)] if a or b else [])
            return pre + self.expr(e.body if t else e.orelse)
        if isinstance(e, ast.Call):
            return self.call(e, bind)
        out: List[Any] = []
        for child in ast.iter_child_nodes(e):
            if isinstance(child, ast.expr):
                out += self.expr(child)
            elif isinstance(child, ast.keyword):
                out += self.expr(child.value)
            elif isinstance(child, ast.comprehension):
                out += self.expr(child.iter)
        return out

    def names_of(self, bind: Optional[ast.AST]) -> Optional[List[str]]:
        if isinstance(bind, (ast.Tuple, ast.List)) and not any(isinstance(x, ast.Starred) for x in bind.elts):
            return [ast.unparse(x) for x in bind.elts]
        if isinstance(bind, (ast.Name, ast.Attribute)):
            return [ast.unparse(bind)]
        return None

    def call(self, c: ast.Call, bind: Optional[ast.AST]) -> List[Any]:
        d = dotted(c.func) or ''
        f = c.func
        # ---- reads
        if d in ('struct_read', 'binformat.struct_read') and len(c.args) >= 2:
            return [Tok('S' + expand(self.struct_fmt(c.args[0])) + ';', c, None, self.names_of(bind))]
        if isinstance(f, ast.Attribute) and f.attr in ('unpack', 'unpack_from') and c.args:
            a0 = c.args[0]
            if isinstance(a0, ast.Call) and isinstance(a0.func, ast.Attribute) and a0.func.attr == 'read' and self.is_stream(a0.func.value):
                fmt = self.struct_fmt(c.args[0] if dotted(f.value) == 'struct' else f.value) if dotted(f.value) != 'struct' else self.struct_fmt(c.args[0])
                if dotted(f.value) == 'struct':
                    a0 = c.args[1]
                return [Tok('S' + expand(fmt) + ';', c, None, self.names_of(bind))]
            if dotted(f.value) == 'struct' and len(c.args) == 2 and isinstance(c.args[1], ast.Call) and isinstance(c.args[1].func, ast.Attribute) and c.args[1].func.attr == 'read' and self.is_stream(c.args[1].func.value):
                return [Tok('S' + expand(self.struct_fmt(c.args[0])) + ';', c, None, self.names_of(bind))]
        if isinstance(f, ast.Attribute) and f.attr == 'read' and self.is_stream(f.value):
            if c.args and isinstance(c.args[0], ast.Constant) and isinstance(c.args[0].value, int):
                n = c.args[0].value
                return [Tok('S' + 'B' * n + ';', c, None, self.names_of(bind)) if n <= 2 else Tok(f'R{n};', c)]
            return [Tok('Rvar;', c)]
        if d in ('read_nullstr', 'binformat.read_nullstr'):
            return [Tok('Z;', c)]
        if d in ('read_nullstr_array', 'binformat.read_nullstr_array'):
            return [('star', [Tok('Z;', c)])]
        if d in self.dict_read:
            return [Tok('D;', c, None, self.names_of(bind))]
        # ---- writes
        if isinstance(f, ast.Attribute) and f.attr == 'write' and self.is_stream(f.value) and c.args:
            return self.written(c.args[0], c)
        # ---- sub-records / inlining
        last = d.split('.')[-1]
        if d in self.ignore or last in self.ignore:
            return []
        if d in self.sub or last in self.sub:
            pre: List[Any] = []
            for a in c.args:
                pre += self.expr(a)
            return pre + [Tok('@' + self.sub.get(d, self.sub.get(last, '')) + ';', c)]
        if (d in self.inline or last in self.inline) and self.depth < 4:
            fn = self.inline.get(d) or self.inline[last]
            return self.inlined(fn, c)
        out: List[Any] = []
        if isinstance(f, ast.Attribute):
            out += self.expr(f.value)
        for a in c.args:
            out += self.expr(a)
        for k in c.keywords:
            out += self.expr(k.value)
        if any(self.is_stream(a) for a in c.args) and not (d.startswith('io.') or d in ('len', 'DeferredWrites', 'binformat.DeferredWrites')):
            raise AnalysisError(f'{self.mod.relpath}:{c.lineno}: the stream is passed to `{d or ast.unparse(f)[:30]}` which is neither inlined nor a declared sub-record')
        return out

    def inlined(self, fn: ast.AST, c: ast.Call) -> List[Any]:
        params = [a.arg for a in fn.args.args]                      # type: ignore[attr-defined]
        if params and params[0] in ('self', 'cls'):
            params = params[1:]
        saved_vals, saved_env = dict(self.ex.cfg.values), dict(self.env)
        pre: List[Any] = []
        for p, a in zip(params, c.args):
            pre += self.expr(a)
            v = self.ex.ev(a)
            if v is not UNKNOWN:
                self.ex.cfg.values[p] = v
        self.depth += 1
        try:
            body = self.block(fn.body)                               # type: ignore[attr-defined]
            self.returned = False
        finally:
            self.depth -= 1
            self.ex.cfg.values.clear()
            self.ex.cfg.values.update(saved_vals)
            self.env.clear()
            self.env.update(saved_env)
            self.raised = False
        return pre + body

    def written(self, x: ast.AST, node: ast.AST) -> List[Any]:
        if isinstance(x, ast.Call):
            d = dotted(x.func) or ''
            if d in ('struct.pack', 'pack') and x.args:
                return [Tok('S' + expand(self.struct_fmt(x.args[0])) + ';', node, list(x.args[1:]))]
            if isinstance(x.func, ast.Attribute) and x.func.attr == 'pack':
                return [Tok('S' + expand(self.struct_fmt(x.func.value)) + ';', node, list(x.args))]
            if d in self.dict_write:
                return [Tok('D;', node, list(x.args))]
            if d == 'bytes' and len(x.args) == 1 and isinstance(x.args[0], ast.Constant):
                return [Tok('S' + 'x' * x.args[0].value + ';', node)]
        if isinstance(x, ast.Constant) and isinstance(x.value, bytes):
            return [Tok('S' + 'B' * len(x.value) + ';', node, [x])]
        if isinstance(x, ast.IfExp) and all(isinstance(b, ast.Constant) and isinstance(b.value, bytes) and len(b.value) == 1 for b in (x.body, x.orelse)):
            return [Tok('SB;', node, [x])]
        if isinstance(x, ast.BinOp) and isinstance(x.op, ast.Add) and isinstance(x.right, ast.Constant) and x.right.value in (b'\0', b'\x00'):
            return [Tok('Z;', node, [x.left])]
        if isinstance(x, ast.Name) and x.id in self.packed:
            return self.written(self.packed[x.id], node)
        if isinstance(x, (ast.Name, ast.Attribute)):
            return [Tok('Rvar;', node, [x])]
        if isinstance(x, ast.Call) and isinstance(x.func, ast.Attribute) and x.func.attr in ('encode', 'getvalue', 'tobytes'):
            return [Tok('Rvar;', node, [x])]
        raise AnalysisError(f'{self.mod.relpath}:{getattr(x, "lineno", 0)}: written value `{ast.unparse(x)[:60]}` not recognised')

    # ---- statements -----------------------------------------------------------------------------------------------------------
    def block(self, stmts: Sequence[ast.stmt]) -> List[Any]:
        out: List[Any] = []
        for i, st in enumerate(stmts):
            if isinstance(st, ast.If) and self.ex.ev(st.test) is UNKNOWN:
                # undecided branch: if exactly one arm leaves the function, the rest of the block belongs to the other arm
                pre = self.expr(st.test)
                saved = dict(self.env)
                a = self.block(st.body)
                ra = self.returned or self.raised
                self.returned = self.raised = False
                self.env.clear(); self.env.update(saved)
                b = self.block(st.orelse)
                rb = self.returned or self.raised
                self.returned = self.raised = False
                self.env.clear(); self.env.update(saved)
                if ra != rb:
                    rest = self.block(stmts[i + 1:])
                    if ra:
                        b = b + rest
                    else:
                        a = a + rest
                    out += pre + ([('alt', ast.unparse(st.test), a, b, st)] if a or b else [])
                    return out
                if ra and rb:
                    out += pre + ([('alt', ast.unparse(st.test), a, b, st)] if a or b else [])
                    self.returned = True
                    return out
                out += pre + ([('alt', ast.unparse(st.test), a, b, st)] if a or b else [])
                continue
            out += self.stmt(st)
            if isinstance(st, ast.Return):
                self.returned = True
            if self.raised or self.returned or isinstance(st, (ast.Continue, ast.Break)):
                break
        return out

    def note_assign(self, tgt: ast.AST, val: ast.AST) -> None:
        if isinstance(tgt, ast.Name):
            # `prefix = fmt.pack(...)` followed by `file.write(prefix)`: remember the packing call behind the local
            is_pack = isinstance(val, ast.Call) and ((dotted(val.func) or '') in ('struct.pack', 'pack') or (isinstance(val.func, ast.Attribute) and val.func.attr == 'pack'))
            if is_pack:
                self.packed[tgt.id] = val
            else:
                self.packed.pop(tgt.id, None)
            v = self.ex.ev(val)
            if v is not UNKNOWN and isinstance(v, (int, str, bool, type(None))) or (v is not UNKNOWN and type(v).__name__ == 'EnumMember'):
                self.env[tgt.id] = v
            else:
                self.env.pop(tgt.id, None)

    def stmt(self, st: ast.stmt) -> List[Any]:
        if isinstance(st, ast.If):
            pre = self.expr(st.test)
            t = self.ex.ev(st.test)
            if t is UNKNOWN:
                saved = dict(self.env)
                a = self.block(st.body)
                self.raised = False
                self.env.clear(); self.env.update(saved)
                b = self.block(st.orelse)
                self.raised = False
                self.env.clear(); self.env.update(saved)
                if not a and not b:
                    return pre
                return pre + [('alt', ast.unparse(st.test), a, b, st)]
            return pre + self.block(st.body if t else st.orelse)
        if isinstance(st, ast.For):
            head = self.expr(st.iter, st.target)
            body = self.block(st.body)
            self.raised = False
            return head + ([('star', body)] if body else [])
        if isinstance(st, ast.While):
            head = self.expr(st.test)
            body = self.block(st.body)
            self.raised = False
            return head + ([('star', body)] if body else [])
        if isinstance(st, ast.Assign):
            # a local in-memory stream (`buf = BytesIO()`) is a stream of this function whatever it is called
            if isinstance(st.value, ast.Call) and (dotted(st.value.func) or '').split('.')[-1] == 'BytesIO' and not st.value.args:
                for t_ in st.targets:
                    if isinstance(t_, ast.Name):
                        self.stream.add(t_.id)
            toks = self.expr(st.value, st.targets[0] if len(st.targets) == 1 else None)
            for t in st.targets:
                self.note_assign(t, st.value)
            return toks
        if isinstance(st, ast.AnnAssign):
            if st.value is None:
                return []
            toks = self.expr(st.value, st.target)
            self.note_assign(st.target, st.value)
            return toks
        if isinstance(st, ast.AugAssign):
            if isinstance(st.target, ast.Name):
                self.env.pop(st.target.id, None)
            return self.expr(st.value)
        if isinstance(st, (ast.Expr, ast.Return)):
            return self.expr(st.value)
        if isinstance(st, ast.Raise):
            self.raised = True
            return []
        if isinstance(st, ast.Try):
            out = self.block(st.body)
            for h in st.handlers:
                hb = self.block(h.body)
                self.raised = False
                if hb:
                    out.append(('alt', 'except', hb, [], h))
            return out + self.block(st.orelse) + self.block(st.finalbody)
        if isinstance(st, ast.With):
            out = []
            for it in st.items:
                out += self.expr(it.context_expr)
            return out + self.block(st.body)
        if isinstance(st, (ast.Assert, ast.Pass, ast.Continue, ast.Break, ast.Delete, ast.Global, ast.Nonlocal, ast.Import, ast.ImportFrom, ast.FunctionDef, ast.ClassDef)):
            return []
        raise AnalysisError(f'{self.mod.relpath}:{st.lineno}: statement kind {type(st).__name__} not handled by the token extractor')


def flat(items: Sequence[Any]) -> str:
    out = []
    for it in items:
        if isinstance(it, Tok):
            out.append(it.text)
        elif it[0] == 'star':
            inner = flat(it[1])
            if inner:
                out.append(f'({inner})*')
        else:
            a, b = flat(it[2]), flat(it[3])
            out.append(a if a == b else f'[{a}|{b}]')
    s = ''.join(out)
    prev = None
    while prev != s:
        prev = s
        s = re.sub(r'\(\(([^()]*)\)\*\)\*', r'(\1)*', s)
    return s


def toks(items: Sequence[Any]) -> List[Tok]:
    out: List[Tok] = []
    for it in items:
        if isinstance(it, Tok):
            out.append(it)
        elif it[0] == 'star':
            out += toks(it[1])
        else:
            out += toks(it[2]) + toks(it[3])
    return out


def merge_slots(s: str) -> str:
    """`SB;Sh;` -> `SBh;`: adjacent struct tokens are the same bytes whichever way the calls were split"""
    prev = None
    while prev != s:
        prev = s
        s = re.sub(r'S([^;]*);S([^;]*);', r'S\1\2;', s)
    return s
