"""E0 - program model: parsed modules, class/function lookup, small AST helpers.

Everything here reads the *text* of /repo/src/srctools (or $VERIF_REPO) and never imports it.
Every lookup fails closed with AnalysisError (exit 2) when an anchor cannot be found.
"""
from __future__ import annotations

import ast
import hashlib
import os
import re
from typing import Any, Callable, Dict, Iterable, Iterator, List, Optional, Sequence, Tuple, Union


class AnalysisError(Exception):
    """The analysis could not understand / find something it was told to look at (exit 2)."""


FuncNode = Union[ast.FunctionDef, ast.AsyncFunctionDef]


def repo_root() -> str:
    return os.environ.get('VERIF_REPO', '/repo')


def _const_table(v: Optional[ast.AST], limit: int = 16) -> bool:
    if not isinstance(v, (ast.List, ast.Tuple)) or not v.elts or len(v.elts) > limit:
        return False

    def c(e: ast.AST) -> bool:
        if isinstance(e, ast.Constant):
            return True
        return isinstance(e, ast.Tuple) and all(c(x) for x in e.elts)
    return all(c(e) for e in v.elts)


def unroll_table_loops(tree: ast.Module) -> int:
    """Table-driven straight-line code, made explicit: a `for <names> in <TABLE>:` statement whose iterable is a module-level name bound
    once to a list/tuple of constants (or tuples of constants, at most 16 rows), whose body neither breaks, continues nor rebinds the loop
    names, and which has no else clause, is replaced in place by one copy of its body per row with the loop names replaced by the row's
    constants.  That is what the loop computes; rules written for the unrolled spelling (five `_export_disp_rowset(...)` calls) then read
    the table-driven spelling the same way.  Positions of the copies are those of the original body statements.  Returns the number of loops
    unrolled."""
    import copy
    tables: Dict[str, ast.AST] = {}
    counts: Dict[str, int] = {}
    for st in tree.body:
        tg: List[ast.AST] = []
        val: Optional[ast.AST] = None
        if isinstance(st, ast.Assign):
            tg, val = list(st.targets), st.value
        elif isinstance(st, ast.AnnAssign) and st.value is not None:
            tg, val = [st.target], st.value
        for t in tg:
            if isinstance(t, ast.Name):
                counts[t.id] = counts.get(t.id, 0) + 1
                if _const_table(val):
                    tables[t.id] = val          # type: ignore[assignment]
    tables = {k: v for k, v in tables.items() if counts.get(k) == 1}
    done = 0

    def own_level(stmts: Sequence[ast.stmt]) -> Iterator[ast.AST]:
        for st in stmts:
            yield st
            if isinstance(st, (ast.For, ast.While, ast.FunctionDef, ast.AsyncFunctionDef, ast.ClassDef)):
                continue
            for fld in ('body', 'orelse', 'finalbody'):
                yield from own_level(getattr(st, fld, []) or [])
            for h in getattr(st, 'handlers', []):
                yield from own_level(h.body)

    def expand(loop: ast.For, local_rows: Optional[List[ast.AST]] = None) -> Optional[List[ast.stmt]]:
        if loop.orelse:
            return None
        if local_rows is not None:
            rows = local_rows
        elif isinstance(loop.iter, ast.Name) and loop.iter.id in tables:
            rows = tables[loop.iter.id].elts          # type: ignore[attr-defined]
        else:
            return None
        if isinstance(loop.target, ast.Name):
            names = [loop.target.id]
            rowvals = [[r] for r in rows]
        elif isinstance(loop.target, ast.Tuple) and all(isinstance(e, ast.Name) for e in loop.target.elts):
            names = [e.id for e in loop.target.elts]          # type: ignore[attr-defined]
            if not all(isinstance(r, ast.Tuple) and len(r.elts) == len(names) for r in rows):
                return None
            rowvals = [list(r.elts) for r in rows]          # type: ignore[attr-defined]
        else:
            return None
        if any(isinstance(x, (ast.Break, ast.Continue)) for x in own_level(loop.body)):
            return None
        for x in ast.walk(loop):
            if x is not loop.target and isinstance(x, ast.Name) and x.id in names and not isinstance(x.ctx, ast.Load) and not any(x is y for y in ast.walk(loop.target)):
                return None
            if isinstance(x, (ast.FunctionDef, ast.AsyncFunctionDef, ast.Lambda, ast.Global, ast.Nonlocal)):
                return None
        out: List[ast.stmt] = []
        for vals in rowvals:
            sub = dict(zip(names, vals))

            class Sub(ast.NodeTransformer):
                def visit_Name(self, n: ast.Name) -> ast.AST:      # noqa: N802
                    if n.id in sub and isinstance(n.ctx, ast.Load):
                        return ast.copy_location(copy.deepcopy(sub[n.id]), n)
                    return n

                def visit_BinOp(self, n: ast.BinOp) -> ast.AST:      # noqa: N802
                    self.generic_visit(n)
                    if isinstance(n.op, ast.Add) and isinstance(n.left, ast.Constant) and isinstance(n.right, ast.Constant) and isinstance(n.left.value, str) and isinstance(n.right.value, str):
                        return ast.copy_location(ast.Constant(value=n.left.value + n.right.value), n)          # 'readonly' + ' '
                    return n

                def visit_JoinedStr(self, n: ast.JoinedStr) -> ast.AST:      # noqa: N802
                    # f'{indent} {keyword}\n' with keyword := 'cc_x' is the f-string with that text in place
                    self.generic_visit(n)
                    vals: List[ast.AST] = []
                    for v in n.values:
                        if isinstance(v, ast.FormattedValue) and isinstance(v.value, ast.Constant) and isinstance(v.value.value, str) and v.conversion == -1 and v.format_spec is None:
                            v = ast.copy_location(ast.Constant(value=v.value.value), v)
                        if isinstance(v, ast.Constant) and vals and isinstance(vals[-1], ast.Constant) and isinstance(v.value, str) and isinstance(vals[-1].value, str):
                            vals[-1] = ast.copy_location(ast.Constant(value=vals[-1].value + v.value), vals[-1])
                        else:
                            vals.append(v)
                    n.values = vals          # type: ignore[assignment]
                    return n
            for b in loop.body:
                out.append(Sub().visit(copy.deepcopy(b)))
        return out

    def _pure(e: ast.AST) -> bool:
        return all(isinstance(x, (ast.Name, ast.Attribute, ast.Constant, ast.Compare, ast.BoolOp, ast.UnaryOp, ast.Tuple, ast.Load, ast.And, ast.Or, ast.Not, ast.Is, ast.IsNot, ast.Eq, ast.NotEq,
                                  ast.In, ast.NotIn, ast.Lt, ast.LtE, ast.Gt, ast.GtE, ast.USub)) for x in ast.walk(e))

    def _ok_body(body: List[ast.stmt]) -> bool:
        for b in body:
            if isinstance(b, ast.If):
                if not (_pure(b.test) and _ok_body(b.body) and _ok_body(b.orelse)):
                    return False
            elif isinstance(b, ast.Expr) and isinstance(b.value, ast.Call) and isinstance(b.value.func, ast.Attribute) and isinstance(b.value.func.value, ast.Name) and b.value.func.attr in ('write', 'append'):
                continue
            else:
                return False
        return True

    def _local_table(stmts: List[ast.stmt], i: int, loop: ast.For) -> Optional[List[ast.AST]]:
        """`X = [(<pure>, ...), ...]` directly in front of `for ... in X:` whose body only tests and calls `<name>.write(...)`: the rows
        (attribute reads and comparisons, evaluated when the list is built) cannot be changed by such a body, so the loop is its unrolling"""
        prev = stmts[i - 1]
        val = prev.value if isinstance(prev, (ast.Assign, ast.AnnAssign)) else None
        tgt = (prev.targets[0] if isinstance(prev, ast.Assign) and len(prev.targets) == 1 else getattr(prev, 'target', None))
        if not (isinstance(tgt, ast.Name) and isinstance(loop.iter, ast.Name) and tgt.id == loop.iter.id and isinstance(val, (ast.List, ast.Tuple)) and val.elts and len(val.elts) <= 16):
            return None
        if not all(_pure(r) for r in val.elts):
            return None
        if any(isinstance(x, ast.Name) and x.id == tgt.id for s_ in stmts[i + 1:] for x in ast.walk(s_)):
            return None

        return list(val.elts) if _ok_body(loop.body) else None

    def _inline_table(loop: ast.For) -> Optional[List[ast.AST]]:
        rows = list(loop.iter.elts)          # type: ignore[attr-defined]
        if not all(_pure(r) for r in rows):
            return None
        return rows if _ok_body(loop.body) else None

    def rewrite(stmts: List[ast.stmt]) -> None:
        nonlocal done
        i = 0
        while i < len(stmts):
            st = stmts[i]
            for fld in ('body', 'orelse', 'finalbody'):
                sub = getattr(st, fld, None)
                if isinstance(sub, list) and sub and isinstance(sub[0], ast.stmt):
                    rewrite(sub)
            for h in getattr(st, 'handlers', []):
                rewrite(h.body)
            if isinstance(st, ast.For):
                ex = expand(st)
                if ex is None and i > 0 and isinstance(st.iter, ast.Name):
                    ex = expand(st, local_rows=_local_table(stmts, i, st))
                if ex is None and isinstance(st.iter, (ast.Tuple, ast.List)) and st.iter.elts and len(st.iter.elts) <= 16 and all(isinstance(r, ast.Tuple) for r in st.iter.elts):
                    # the table written in place: `for flag, word in ((self.a, 'x'), (self.b, 'y')):`
                    ex = expand(st, local_rows=_inline_table(st))
                if ex is not None:
                    stmts[i:i + 1] = ex
                    done += 1
                    i += len(ex)
                    continue
            i += 1
    rewrite(tree.body)
    if done:
        ast.fix_missing_locations(tree)
    return done


def fold_small_constants(fn: ast.AST) -> ast.AST:
    """A copy of `fn` in which (a) locals assigned exactly once, from an int literal, are replaced by that literal, (b) arithmetic on int
    literals is folded (`4 * 16` -> 64, `x + 0` -> x), and (c) a comprehension `[e(i) for i in range(N)]` with a literal N <= 8 and no filter
    is written out as the list of its N elements.  Rules that read offsets and strides as literals use it to read the same numbers when a
    refactoring has given them names."""
    import copy
    fn = copy.deepcopy(fn)
    stores: Dict[str, List[ast.AST]] = {}
    for n in ast.walk(fn):
        if isinstance(n, ast.Name) and isinstance(n.ctx, ast.Store):
            stores.setdefault(n.id, []).append(n)
    consts: Dict[str, int] = {}
    for n in ast.walk(fn):
        tgt = n.targets[0] if isinstance(n, ast.Assign) and len(n.targets) == 1 else (n.target if isinstance(n, ast.AnnAssign) else None)
        val = getattr(n, 'value', None)
        if isinstance(tgt, ast.Name) and len(stores.get(tgt.id, [])) == 1 and isinstance(val, ast.Constant) and isinstance(val.value, int) and not isinstance(val.value, bool):
            consts[tgt.id] = val.value

    class Fold(ast.NodeTransformer):
        def __init__(self, env: Dict[str, int]) -> None:
            self.env = env

        def visit_Name(self, n: ast.Name) -> ast.AST:      # noqa: N802
            if isinstance(n.ctx, ast.Load) and n.id in self.env:
                return ast.copy_location(ast.Constant(value=self.env[n.id]), n)
            return n

        def visit_BinOp(self, n: ast.BinOp) -> ast.AST:      # noqa: N802
            self.generic_visit(n)
            l_, r_ = n.left, n.right
            ci = lambda x: isinstance(x, ast.Constant) and isinstance(x.value, int) and not isinstance(x.value, bool)      # noqa: E731
            if ci(l_) and ci(r_) and isinstance(n.op, (ast.Add, ast.Sub, ast.Mult)):
                v = {ast.Add: l_.value + r_.value, ast.Sub: l_.value - r_.value, ast.Mult: l_.value * r_.value}[type(n.op)]
                return ast.copy_location(ast.Constant(value=v), n)
            if isinstance(n.op, ast.Add) and ci(r_) and r_.value == 0:
                return l_
            if isinstance(n.op, ast.Add) and ci(l_) and l_.value == 0:
                return r_
            if isinstance(n.op, ast.Mult) and ci(r_) and r_.value == 1:
                return l_
            if isinstance(n.op, ast.Mult) and ci(l_) and l_.value == 1:
                return r_
            return n

        def _expand(self, n: Any) -> Optional[ast.AST]:
            if len(n.generators) != 1:
                return None
            g = n.generators[0]
            if g.ifs or g.is_async or not isinstance(g.target, ast.Name):
                return None
            it = g.iter
            if not (isinstance(it, ast.Call) and isinstance(it.func, ast.Name) and it.func.id == 'range' and len(it.args) == 1):
                return None
            cnt = Fold(self.env).visit(copy.deepcopy(it.args[0]))
            if not (isinstance(cnt, ast.Constant) and isinstance(cnt.value, int) and 0 <= cnt.value <= 8):
                return None
            elts = [Fold({**self.env, g.target.id: k}).visit(copy.deepcopy(n.elt)) for k in range(cnt.value)]
            return ast.copy_location(ast.List(elts=elts, ctx=ast.Load()), n)

        def visit_ListComp(self, n: ast.ListComp) -> ast.AST:      # noqa: N802
            ex = self._expand(n)
            if ex is not None:
                return ex
            self.generic_visit(n)
            return n
    out = Fold(consts).visit(fn)
    ast.fix_missing_locations(out)
    return out


def inline_loop_exits(fn: ast.AST) -> ast.AST:
    """A copy of `fn` in which, for every `while True:` loop that is directly followed by a `return <expr>` and has no else clause, each
    `break` belonging to that loop is replaced by a copy of that return, and the trailing return is dropped.  `while True: ... break` +
    `return X` and `while True: ... return X` are the same function; rules that model the loop's exits read them alike."""
    import copy
    fn = copy.deepcopy(fn)

    def own_breaks(stmts: List[ast.stmt], ret: ast.Return) -> bool:
        changed = False
        for i, st in enumerate(stmts):
            if isinstance(st, ast.Break):
                stmts[i] = ast.copy_location(copy.deepcopy(ret), st)
                changed = True
            elif isinstance(st, (ast.For, ast.While, ast.FunctionDef, ast.AsyncFunctionDef, ast.ClassDef)):
                continue
            else:
                for fld in ('body', 'orelse', 'finalbody'):
                    sub = getattr(st, fld, None)
                    if isinstance(sub, list) and sub and isinstance(sub[0], ast.stmt):
                        changed |= own_breaks(sub, ret)
                for h in getattr(st, 'handlers', []):
                    changed |= own_breaks(h.body, ret)
        return changed

    def visit(stmts: List[ast.stmt]) -> None:
        i = 0
        while i < len(stmts):
            st = stmts[i]
            for fld in ('body', 'orelse', 'finalbody'):
                sub = getattr(st, fld, None)
                if isinstance(sub, list) and sub and isinstance(sub[0], ast.stmt):
                    visit(sub)
            for h in getattr(st, 'handlers', []):
                visit(h.body)
            if isinstance(st, ast.While) and isinstance(st.test, ast.Constant) and st.test.value is True and not st.orelse and i + 1 < len(stmts) and isinstance(stmts[i + 1], ast.Return):
                if own_breaks(st.body, stmts[i + 1]):
                    del stmts[i + 1]
            i += 1
    visit(fn.body)          # type: ignore[attr-defined]
    ast.fix_missing_locations(fn)
    return fn


class Module:
    def __init__(self, name: str, path: str, relpath: str) -> None:
        self.name = name
        self.path = path
        self.relpath = relpath
        with open(path, encoding='utf8') as f:
            self.text = f.read()
        self.lines = self.text.splitlines()
        try:
            self.tree = ast.parse(self.text, filename=path)
        except SyntaxError as exc:
            raise AnalysisError(f'cannot parse {relpath}: {exc}') from exc
        self.digest = hashlib.sha256(self.text.encode('utf8')).hexdigest()[:16]
        # locals of functions that are alpha-equivalent to the recorded reference get the recorded names back (engine/alphanorm.py)
        from .alphanorm import normalise
        self.alpha_normalised = normalise(self.tree, relpath)
        # `for a, b in _TABLE:` over a small module-level table of constants is the unrolled sequence of its bodies (see unroll_table_loops)
        self.unrolled_loops = unroll_table_loops(self.tree)
        self._parents: Optional[Dict[ast.AST, ast.AST]] = None
        self._funcs: Optional[Dict[str, List[FuncNode]]] = None
        self._classes: Optional[Dict[str, ast.ClassDef]] = None

    # -- indexing --------------------------------------------------------------------------
    def _index(self) -> None:
        funcs: Dict[str, List[FuncNode]] = {}
        classes: Dict[str, ast.ClassDef] = {}

        def visit(body: Sequence[ast.stmt], prefix: str) -> None:
            for st in body:
                if isinstance(st, (ast.FunctionDef, ast.AsyncFunctionDef)):
                    funcs.setdefault(prefix + st.name, []).append(st)
                    # nested functions: one level, qualified with '<locals>'
                    visit(st.body, prefix + st.name + '.<locals>.')
                elif isinstance(st, ast.ClassDef):
                    classes[prefix + st.name] = st
                    visit(st.body, prefix + st.name + '.')
                elif isinstance(st, (ast.If, ast.Try)):
                    # definitions under `if TYPE_CHECKING` / try-import fallbacks
                    visit(st.body, prefix)
                    for h in getattr(st, 'handlers', []):
                        visit(h.body, prefix)
                    visit(st.orelse, prefix)
                elif isinstance(st, (ast.For, ast.While, ast.With)):
                    visit(st.body, prefix)

        visit(self.tree.body, '')
        self._funcs = funcs
        self._classes = classes

    @property
    def parents(self) -> Dict[ast.AST, ast.AST]:
        if self._parents is None:
            p: Dict[ast.AST, ast.AST] = {}
            for node in ast.walk(self.tree):
                for ch in ast.iter_child_nodes(node):
                    p[ch] = node
            self._parents = p
        return self._parents

    def has_func(self, qual: str) -> bool:
        if self._funcs is None:
            self._index()
        assert self._funcs is not None
        return qual in self._funcs

    def has_class(self, qual: str) -> bool:
        if self._classes is None:
            self._index()
        assert self._classes is not None
        return qual in self._classes

    def func(self, qual: str) -> FuncNode:
        """Return the implementation def of `qual` ('f' or 'Cls.meth'), skipping @overload stubs."""
        defs = self.funcs(qual)
        impl = [d for d in defs if not _is_overload(d)]
        if not impl:
            raise AnalysisError(f'{self.relpath}: only @overload stubs found for {qual}')
        return impl[-1]

    def funcs(self, qual: str) -> List[FuncNode]:
        if self._funcs is None:
            self._index()
        assert self._funcs is not None
        if qual not in self._funcs:
            raise AnalysisError(f'anchor vanished: function {qual} not found in {self.relpath}')
        return self._funcs[qual]

    def all_funcs(self) -> Dict[str, List[FuncNode]]:
        if self._funcs is None:
            self._index()
        assert self._funcs is not None
        return self._funcs

    def cls(self, qual: str) -> ast.ClassDef:
        if self._classes is None:
            self._index()
        assert self._classes is not None
        if qual not in self._classes:
            raise AnalysisError(f'anchor vanished: class {qual} not found in {self.relpath}')
        return self._classes[qual]

    def all_classes(self) -> Dict[str, ast.ClassDef]:
        if self._classes is None:
            self._index()
        assert self._classes is not None
        return self._classes

    def methods(self, clsname: str) -> Dict[str, FuncNode]:
        """Implementation defs directly in a class body (last non-overload wins)."""
        c = self.cls(clsname)
        out: Dict[str, FuncNode] = {}
        for st in _flat_body(c.body):
            if isinstance(st, (ast.FunctionDef, ast.AsyncFunctionDef)) and not _is_overload(st):
                out[st.name] = st
        return out

    def global_assign(self, name: str) -> ast.expr:
        """Value expression of the (last) module-level assignment `name = ...`."""
        found: Optional[ast.expr] = None
        for st in _flat_body(self.tree.body):
            if isinstance(st, ast.Assign):
                for t in st.targets:
                    if isinstance(t, ast.Name) and t.id == name:
                        found = st.value
            elif isinstance(st, ast.AnnAssign) and st.value is not None:
                if isinstance(st.target, ast.Name) and st.target.id == name:
                    found = st.value
        if found is None:
            raise AnalysisError(f'anchor vanished: module constant {name} not found in {self.relpath}')
        return found

    def class_assign(self, clsname: str, name: str) -> ast.expr:
        c = self.cls(clsname)
        found: Optional[ast.expr] = None
        for st in _flat_body(c.body):
            if isinstance(st, ast.Assign):
                for t in st.targets:
                    if isinstance(t, ast.Name) and t.id == name:
                        found = st.value
            elif isinstance(st, ast.AnnAssign) and st.value is not None:
                if isinstance(st.target, ast.Name) and st.target.id == name:
                    found = st.value
        if found is None:
            raise AnalysisError(f'anchor vanished: {clsname}.{name} not found in {self.relpath}')
        return found

    # -- text --------------------------------------------------------------------------------
    def seg(self, node: ast.AST) -> str:
        s = ast.get_source_segment(self.text, node)
        return s if s is not None else ast.unparse(node)

    def line_of(self, node: ast.AST) -> int:
        return getattr(node, 'lineno', 0)

    def enclosing_func(self, node: ast.AST) -> Optional[FuncNode]:
        p = self.parents.get(node)
        while p is not None:
            if isinstance(p, (ast.FunctionDef, ast.AsyncFunctionDef)):
                return p
            p = self.parents.get(p)
        return None

    def qualname_of(self, fn: ast.AST) -> str:
        parts = [getattr(fn, 'name', '?')]
        p = self.parents.get(fn)
        while p is not None:
            if isinstance(p, ast.ClassDef):
                parts.append(p.name)
            elif isinstance(p, (ast.FunctionDef, ast.AsyncFunctionDef)):
                parts.append(p.name + '.<locals>')
            p = self.parents.get(p)
        return '.'.join(reversed(parts))


def _flat_body(body: Sequence[ast.stmt]) -> Iterator[ast.stmt]:
    """Statements of a body, descending into if/try/for wrappers (but not defs)."""
    for st in body:
        yield st
        if isinstance(st, ast.If):
            yield from _flat_body(st.body)
            yield from _flat_body(st.orelse)
        elif isinstance(st, ast.Try):
            yield from _flat_body(st.body)
            for h in st.handlers:
                yield from _flat_body(h.body)
            yield from _flat_body(st.orelse)
            yield from _flat_body(st.finalbody)
        elif isinstance(st, (ast.For, ast.While, ast.With)):
            yield from _flat_body(st.body)


def _is_overload(fn: FuncNode) -> bool:
    for d in fn.decorator_list:
        if dotted(d) in ('overload', 'typing.overload', 'typing_extensions.overload'):
            return True
    return False


class Program:
    """All srctools python modules, parsed lazily."""
    PKG = 'src/srctools'

    def __init__(self, root: Optional[str] = None) -> None:
        self.root = root or repo_root()
        self.src = os.path.join(self.root, self.PKG)
        if not os.path.isdir(self.src):
            raise AnalysisError(f'package directory {self.src} does not exist')
        self._mods: Dict[str, Module] = {}
        self.consulted: List[str] = []

    def module(self, name: str) -> Module:
        if name not in self._mods:
            rel = f'{self.PKG}/{name}.py'
            path = os.path.join(self.root, rel)
            if not os.path.isfile(path):
                raise AnalysisError(f'anchor vanished: module {rel} does not exist')
            self._mods[name] = Module(name, path, rel)
            self.consulted.append(rel)
        return self._mods[name]

    def module_names(self) -> List[str]:
        return sorted(f[:-3] for f in os.listdir(self.src) if f.endswith('.py'))

    def text_file(self, relname: str) -> str:
        rel = f'{self.PKG}/{relname}'
        path = os.path.join(self.root, rel)
        if not os.path.isfile(path):
            raise AnalysisError(f'anchor vanished: file {rel} does not exist')
        if rel not in self.consulted:
            self.consulted.append(rel)
        with open(path, encoding='utf8') as f:
            return f.read()


# ---------------------------------------------------------------------------------------------
# AST helpers
# ---------------------------------------------------------------------------------------------

class Dotted(str):
    """'a.b.c' of a Name/Attribute chain taken from the repository.  Compared with a plain string written in a rule, the FIRST component is
    a pattern variable when the rule's spelling of it is the name of a local (not a builtin, not self/cls, not bound at module level anywhere
    in the package) and the chain has at least two components: `dotted(n.func) == 'defer.set_data'` holds for `d.set_data` as well.  A bare
    name stays an exact test, and two Dotted values (both from the repository) are compared exactly."""

    def __eq__(self, other: object) -> bool:
        if not isinstance(other, str):
            return NotImplemented
        if str.__eq__(self, other):
            return True
        if isinstance(other, Dotted) or '.' not in other or '.' not in self:
            return False
        h1, _, t1 = self.partition('.')
        h2, _, t2 = other.partition('.')
        if t1 != t2:
            return False
        from .srcmatch import globals_
        g = globals_()
        return h2 not in g and h1 not in g

    def __ne__(self, other: object) -> bool:
        r = self.__eq__(other)
        return r if r is NotImplemented else not r

    __hash__ = str.__hash__


def dotted(node: ast.AST) -> Optional[str]:
    """'a.b.c' for Name/Attribute chains, else None."""
    parts: List[str] = []
    while isinstance(node, ast.Attribute):
        parts.append(node.attr)
        node = node.value
    if isinstance(node, ast.Name):
        parts.append(node.id)
        return Dotted('.'.join(reversed(parts)))
    return None


def call_name(node: ast.AST) -> Optional[str]:
    if isinstance(node, ast.Call):
        return dotted(node.func)
    return None


def norm(node: ast.AST) -> str:
    """Whitespace/quote-style independent rendering of a node (first line only for statements
    with bodies), used in stable instance keys."""
    if isinstance(node, (ast.If, ast.While)):
        return type(node).__name__.lower() + ' ' + ast.unparse(node.test)
    if isinstance(node, ast.For):
        return 'for ' + ast.unparse(node.target) + ' in ' + ast.unparse(node.iter)
    if isinstance(node, ast.With):
        return 'with ' + ', '.join(ast.unparse(i) for i in node.items)
    if isinstance(node, (ast.FunctionDef, ast.AsyncFunctionDef)):
        return 'def ' + node.name
    if isinstance(node, ast.ClassDef):
        return 'class ' + node.name
    if isinstance(node, ast.Try):
        return 'try'
    s = ast.unparse(node)
    s = re.sub(r'\s+', ' ', s)
    if len(s) > 200:
        s = s[:200] + '...'
    return s


def walk_no_nested(fn: ast.AST) -> Iterator[ast.AST]:
    """ast.walk over a function body that does not descend into nested defs/lambdas/classes."""
    stack: List[ast.AST] = list(ast.iter_child_nodes(fn))
    while stack:
        n = stack.pop()
        yield n
        if isinstance(n, (ast.FunctionDef, ast.AsyncFunctionDef, ast.ClassDef, ast.Lambda)):
            continue
        stack.extend(ast.iter_child_nodes(n))


def inline_tail_helpers(fn: ast.AST, methods: Dict[str, ast.AST], all_methods: Optional[Dict[str, ast.AST]] = None, depth: int = 2) -> Tuple[ast.AST, List[str]]:
    """A view of method `fn` in which every statement `return self.<helper>()` (no arguments; `<helper>` a private method of the same class
    that nothing else calls) is replaced by the helper's body - "extract method" undone.  Only the nodes on the way to the replaced statement are
    shallow copies; every other node is the original, so parent maps and positions stay valid.  Returns (view, names of the helpers inlined)."""
    import copy
    inlined: List[str] = []
    others = all_methods if all_methods is not None else methods
    me = fn.args.args[0].arg if getattr(fn, 'args', None) and fn.args.args else 'self'      # type: ignore[attr-defined]

    def callers_elsewhere(name: str) -> bool:
        for q, f in others.items():
            if f is fn or q == name:
                continue
            for c in ast.walk(f):
                if isinstance(c, ast.Attribute) and c.attr == name and isinstance(c.value, ast.Name) and c.value.id == me:
                    return True
        return False

    def helper_of(st: ast.stmt) -> Optional[ast.AST]:
        if isinstance(st, ast.Return) and isinstance(st.value, ast.Call) and not st.value.args and not st.value.keywords and isinstance(st.value.func, ast.Attribute) \
                and isinstance(st.value.func.value, ast.Name) and st.value.func.value.id == me:
            h = methods.get(st.value.func.attr)
            if h is not None and h is not fn and st.value.func.attr.startswith('_') and not st.value.func.attr.startswith('__') and len(h.args.args) == 1 \
                    and not h.decorator_list and not callers_elsewhere(st.value.func.attr):      # type: ignore[attr-defined]
                return h
        return None

    def body_of(h: ast.AST) -> List[ast.stmt]:
        return [b for b in h.body if not (isinstance(b, ast.Expr) and isinstance(b.value, ast.Constant))]      # type: ignore[attr-defined]

    def rebuild(stmts: List[ast.stmt], d: int) -> Tuple[List[ast.stmt], bool]:
        out: List[ast.stmt] = []
        changed = False
        for st in stmts:
            h = helper_of(st) if d > 0 else None
            if h is not None:
                inlined.append(st.value.func.attr)      # type: ignore[attr-defined]
                sub, _ = rebuild(body_of(h), d - 1)
                out += sub
                changed = True
                continue
            new_st = st
            for field in ('body', 'orelse', 'finalbody'):
                blk = getattr(st, field, None)
                if isinstance(blk, list) and blk and isinstance(blk[0], ast.stmt):
                    nb, ch = rebuild(blk, d)
                    if ch:
                        if new_st is st:
                            new_st = copy.copy(st)
                        setattr(new_st, field, nb)
                        changed = True
            if isinstance(st, ast.Try):
                hs = []
                hch = False
                for hd in st.handlers:
                    nb, ch = rebuild(hd.body, d)
                    if ch:
                        hd2 = copy.copy(hd)
                        hd2.body = nb
                        hs.append(hd2)
                        hch = True
                    else:
                        hs.append(hd)
                if hch:
                    if new_st is st:
                        new_st = copy.copy(st)
                    new_st.handlers = hs      # type: ignore[attr-defined]
                    changed = True
            out.append(new_st)
        return out, changed
    nb, ch = rebuild(list(fn.body), depth)      # type: ignore[attr-defined]
    if not ch:
        return fn, []
    view = copy.copy(fn)
    view.body = nb      # type: ignore[attr-defined]
    return view, inlined


_MUTATORS = {'append', 'extend', 'insert', 'pop', 'remove', 'clear', 'add', 'discard', 'update', 'setdefault', 'popitem', 'appendleft', 'popleft', 'sort', 'reverse'}


def shared_mutable_class_attrs(tree: ast.AST, class_names: Sequence[str]) -> List[Tuple[str, str, ast.AST]]:
    """(class, attribute, class-level statement) for every attribute that (a) has a class-level default which is a mutable container
    (list / dict / set display or constructor call), (b) is changed in place through the instance by some method of the class or of its bases
    in this module, and (c) is not assigned in any __init__ of that chain: all instances then share the one container."""
    cls_nodes = {c.name: c for c in getattr(tree, 'body', []) if isinstance(c, ast.ClassDef)}
    out: List[Tuple[str, str, ast.AST]] = []

    def chain_of(c_: ast.ClassDef, seen: Optional[List[ast.ClassDef]] = None) -> List[ast.ClassDef]:
        seen = seen if seen is not None else []
        if c_ in seen:
            return seen
        seen.append(c_)
        for b_ in c_.bases:
            bn = dotted(b_)
            if bn in cls_nodes:
                chain_of(cls_nodes[bn], seen)
        return seen
    for cname in class_names:
        cnode = cls_nodes.get(cname)
        if cnode is None:
            continue
        chain = chain_of(cnode)
        mutated = set()
        for c_ in chain:
            for m in c_.body:
                if not isinstance(m, (ast.FunctionDef, ast.AsyncFunctionDef)):
                    continue
                me = m.args.args[0].arg if m.args.args else 'self'
                for n in ast.walk(m):
                    if isinstance(n, ast.Call) and isinstance(n.func, ast.Attribute) and n.func.attr in _MUTATORS and isinstance(n.func.value, ast.Attribute) and isinstance(n.func.value.value, ast.Name) \
                            and n.func.value.value.id == me:
                        mutated.add(n.func.value.attr)
                    if isinstance(n, ast.Subscript) and isinstance(n.ctx, (ast.Store, ast.Del)) and isinstance(n.value, ast.Attribute) and isinstance(n.value.value, ast.Name) and n.value.value.id == me:
                        mutated.add(n.value.attr)
        init_sets = set()
        for c_ in chain:
            for m in c_.body:
                if isinstance(m, ast.FunctionDef) and m.name in ('__init__', '__new__', '__attrs_post_init__'):
                    me = m.args.args[0].arg if m.args.args else 'self'
                    for a in ast.walk(m):
                        if isinstance(a, (ast.Assign, ast.AnnAssign)):
                            for t in (a.targets if isinstance(a, ast.Assign) else [a.target]):
                                for t1 in (t.elts if isinstance(t, (ast.Tuple, ast.List)) else [t]):
                                    if isinstance(t1, ast.Attribute) and isinstance(t1.value, ast.Name) and t1.value.id == me:
                                        init_sets.add(t1.attr)
        for attr in sorted(mutated - init_sets):
            for c_ in chain:
                for st in c_.body:
                    if isinstance(st, (ast.Assign, ast.AnnAssign)) and st.value is not None \
                            and any(isinstance(t, ast.Name) and t.id == attr for t in (st.targets if isinstance(st, ast.Assign) else [st.target])) \
                            and (isinstance(st.value, (ast.List, ast.Dict, ast.Set, ast.ListComp, ast.DictComp, ast.SetComp))
                                 or (isinstance(st.value, ast.Call) and dotted(st.value.func) in ('list', 'dict', 'set', 'deque', 'collections.deque', 'defaultdict', 'collections.defaultdict', 'bytearray'))):
                        out.append((cname, attr, st))
    return out


def calls_in(node: ast.AST, nested: bool = True) -> Iterator[ast.Call]:
    it = ast.walk(node) if nested else walk_no_nested(node)
    for n in it:
        if isinstance(n, ast.Call):
            yield n


def names_in(node: ast.AST) -> List[str]:
    return [n.id for n in ast.walk(node) if isinstance(n, ast.Name)]


def attrs_of_self(node: ast.AST, selfname: str = 'self') -> List[ast.Attribute]:
    return [n for n in ast.walk(node)
            if isinstance(n, ast.Attribute) and isinstance(n.value, ast.Name) and n.value.id == selfname]


def const_str(node: ast.AST) -> Optional[str]:
    if isinstance(node, ast.Constant) and isinstance(node.value, str):
        return node.value
    return None


def stmt_of(mod: Module, node: ast.AST) -> ast.AST:
    """The innermost statement containing node."""
    cur = node
    while not isinstance(cur, ast.stmt):
        nxt = mod.parents.get(cur)
        if nxt is None:
            return cur
        cur = nxt
    return cur


def decorators(fn: ast.AST) -> List[str]:
    out = []
    for d in getattr(fn, 'decorator_list', []):
        if isinstance(d, ast.Call):
            d = d.func
        out.append(dotted(d) or ast.unparse(d))
    return out


def base_names(c: ast.ClassDef) -> List[str]:
    out = []
    for b in c.bases:
        if isinstance(b, ast.Subscript):
            b = b.value
        n = dotted(b)
        if n:
            out.append(n.split('.')[-1])
    return out


def mro(mod: Module, clsname: str) -> List[str]:
    """Linearised bases inside one module (simple DFS; the package has no diamond that matters)."""
    out: List[str] = []

    def rec(n: str) -> None:
        if n in out or not mod.has_class(n):
            return
        out.append(n)
        for b in base_names(mod.cls(n)):
            rec(b)
    rec(clsname)
    return out


def resolve_method(mod: Module, clsname: str, meth: str) -> Optional[Tuple[str, FuncNode]]:
    for c in mro(mod, clsname):
        ms = mod.methods(c)
        if meth in ms:
            return c, ms[meth]
    return None


def class_fields(mod: Module, clsname: str) -> List[str]:
    """Field model: __slots__ entries, attrs/dataclass annotated class-level fields, and
    `self.x = ...` stores in __init__ / __attrs_post_init__ (own class only, in order)."""
    c = mod.cls(clsname)
    fields: List[str] = []

    def add(n: str) -> None:
        if n not in fields:
            fields.append(n)

    for st in c.body:
        if isinstance(st, ast.Assign) and any(isinstance(t, ast.Name) and t.id == '__slots__' for t in st.targets):
            if isinstance(st.value, (ast.Tuple, ast.List)):
                for e in st.value.elts:
                    s = const_str(e)
                    if s is not None:
                        add(s)
            else:
                s = const_str(st.value)
                if s is not None:
                    add(s)
        elif isinstance(st, ast.AnnAssign) and isinstance(st.target, ast.Name):
            ann = ast.unparse(st.annotation)
            if 'ClassVar' in ann or ('Final' in ann and st.value is not None):
                continue
            add(st.target.id)
    for mname in ('__init__', '__attrs_post_init__'):
        ms = mod.methods(clsname)
        if mname in ms:
            for n in ast.walk(ms[mname]):
                if isinstance(n, (ast.Assign, ast.AnnAssign, ast.AugAssign)):
                    tgts = n.targets if isinstance(n, ast.Assign) else [n.target]
                    for t in tgts:
                        for el in (t.elts if isinstance(t, ast.Tuple) else [t]):
                            if isinstance(el, ast.Attribute) and isinstance(el.value, ast.Name) and el.value.id == 'self':
                                add(el.attr)
    return fields
