"""E7 - pyx-lite front end: logical lines + indentation tree for Cython sources (token level).

No expression typing.  Offers: functions (def/cdef/cpdef) with their logical lines, enclosing cdef class,
declared types of parameters and `cdef` locals (best effort), and if-chain extraction of byte-literal
comparisons.  A function named by a rule that cannot be found -> AnalysisError (exit 2).
"""
from __future__ import annotations

import ast
import io
import re
import tokenize
from typing import Dict, Iterator, List, Optional, Tuple

from .model import AnalysisError, Program


class LLine:
    __slots__ = ('indent', 'text', 'lineno', 'toks')

    def __init__(self, indent: int, text: str, lineno: int, toks: List[tokenize.TokenInfo]) -> None:
        self.indent, self.text, self.lineno, self.toks = indent, text, lineno, toks

    def __repr__(self) -> str:
        return f'<{self.lineno}:{" " * self.indent}{self.text}>'


class PyxFunc:
    def __init__(self, name: str, cls: Optional[str], header: LLine, body: List[LLine]) -> None:
        self.name, self.cls, self.header, self.body = name, cls, header, body
        self.qualname = f'{cls}.{name}' if cls else name

    def children(self, idx: int) -> List[int]:
        """indices of the lines forming the block directly under body[idx]"""
        base = self.body[idx].indent
        out = []
        j = idx + 1
        if j >= len(self.body) or self.body[j].indent <= base:
            return out
        child_indent = self.body[j].indent
        while j < len(self.body) and self.body[j].indent > base:
            if self.body[j].indent == child_indent:
                out.append(j)
            j += 1
        return out

    def block_end(self, idx: int) -> int:
        base = self.body[idx].indent
        j = idx + 1
        while j < len(self.body) and self.body[j].indent > base:
            j += 1
        return j

    def local_types(self) -> Dict[str, str]:
        """name -> declared type for parameters and `cdef T name` locals (best effort)."""
        out: Dict[str, str] = {}
        m = re.search(r'\((.*)\)', self.header.text, re.S)
        if m:
            for part in _split_top(m.group(1)):
                part = part.split('=')[0].strip()
                part = re.sub(r'\bnot None\b', '', part).split(':')[0].strip()
                bits = part.replace('*', ' ').split()
                if len(bits) >= 2:
                    out[bits[-1]] = ' '.join(bits[:-1])
        for ln in self.body:
            m2 = re.match(r'cdef\s+([\w\.]+(?:\s*\*)?)\s+(.+)$', ln.text)
            if m2 and '(' not in m2.group(2).split('=')[0]:
                typ = m2.group(1)
                for nm in _split_top(m2.group(2)):
                    nm = nm.split('=')[0].strip().lstrip('*')
                    if re.fullmatch(r'\w+', nm):
                        out[nm] = typ
        return out


def _split_top(s: str) -> List[str]:
    out, depth, cur = [], 0, ''
    for ch in s:
        if ch in '([{':
            depth += 1
        elif ch in ')]}':
            depth -= 1
        if ch == ',' and depth == 0:
            out.append(cur)
            cur = ''
        else:
            cur += ch
    if cur.strip():
        out.append(cur)
    return out


class PyxFile:
    def __init__(self, prog: Program, relname: str) -> None:
        self.relpath = f'{Program.PKG}/{relname}'
        self.text = prog.text_file(relname)
        self.lines = self._logical_lines()
        self.funcs: Dict[str, PyxFunc] = {}
        self._index()

    def _logical_lines(self) -> List[LLine]:
        try:
            toks = list(tokenize.generate_tokens(io.StringIO(self.text).readline))
        except (tokenize.TokenError, IndentationError, SyntaxError) as exc:
            raise AnalysisError(f'{self.relpath}: cannot tokenise: {exc}') from exc
        out: List[LLine] = []
        cur: List[tokenize.TokenInfo] = []
        for t in toks:
            if t.type in (tokenize.COMMENT, tokenize.NL, tokenize.INDENT, tokenize.DEDENT, tokenize.ENDMARKER):
                continue
            if t.type == tokenize.NEWLINE:
                if cur:
                    first = cur[0]
                    text = ' '.join(_tok_text(x) for x in cur)
                    out.append(LLine(first.start[1] if '\t' not in first.line[:first.start[1]] else
                                     len(first.line[:first.start[1]].expandtabs(4)), _squeeze(cur), first.start[0], cur))
                cur = []
                continue
            cur.append(t)
        return out

    def _index(self) -> None:
        cls_stack: List[Tuple[int, str]] = []
        i = 0
        n = len(self.lines)
        while i < n:
            ln = self.lines[i]
            while cls_stack and ln.indent <= cls_stack[-1][0]:
                cls_stack.pop()
            m = re.match(r'(?:cdef\s+)?class\s+(\w+)', ln.text)
            if m and ln.text.rstrip().endswith(':'):
                cls_stack.append((ln.indent, m.group(1)))
                i += 1
                continue
            if re.match(r'(?:async\s+)?(?:def|cdef|cpdef)\b', ln.text) and ln.text.rstrip().endswith(':') and '(' in ln.text:
                name = _def_name(ln.text)
                j = i + 1
                while j < n and self.lines[j].indent > ln.indent:
                    j += 1
                cls = cls_stack[-1][1] if cls_stack else None
                fn = PyxFunc(name, cls, ln, self.lines[i + 1:j])
                self.funcs.setdefault(fn.qualname, fn)
                i = j
                continue
            i += 1

    def func(self, qual: str) -> PyxFunc:
        if qual not in self.funcs:
            raise AnalysisError(f'anchor vanished: {qual} not found in {self.relpath}')
        return self.funcs[qual]


def _def_name(text: str) -> str:
    """Identifier before the last top-level '(' of a def/cdef header (handles tuple return types)."""
    depth, last_open = 0, -1
    for i, ch in enumerate(text):
        if ch in '([{':
            if depth == 0 and ch == '(':
                last_open = i
            depth += 1
        elif ch in ')]}':
            depth -= 1
    m = re.search(r'(\w+)\s*$', text[:last_open])
    return m.group(1) if m else '?'


def _tok_text(t: tokenize.TokenInfo) -> str:
    return t.string


def _squeeze(toks: List[tokenize.TokenInfo]) -> str:
    """Re-join tokens with single spaces only where the source had whitespace."""
    parts: List[str] = []
    prev: Optional[tokenize.TokenInfo] = None
    for t in toks:
        if prev is not None and (t.start[0] != prev.end[0] or t.start[1] > prev.end[1]):
            parts.append(' ')
        parts.append(t.string)
        prev = t
    return ''.join(parts)


_BYTES_LIT = r'''b(?:'(?:[^'\\]|\\.)*'|"(?:[^"\\]|\\.)*")'''


def bytes_literal(s: str) -> bytes:
    v = ast.literal_eval(s)
    if not isinstance(v, bytes):
        raise AnalysisError(f'not a bytes literal: {s}')
    return v


def if_chain_byte_tests(fn: PyxFunc, var: str) -> Iterator[Tuple[int, List[bytes], str]]:
    """Yield (line index, literal byte values, header text) for every `if/elif <var> == b'..'` or
    `<var> in (b'..', ...)` / `<var> in b'...'` header line in the function."""
    pat_eq = re.compile(r'^(?:el)?if\s+' + re.escape(var) + r'\s*==\s*(' + _BYTES_LIT + r')\s*(?P<rest>.*):$')
    pat_in_t = re.compile(r'^(?:el)?if\s+' + re.escape(var) + r'\s+in\s+\((?P<items>[^)]*)\)\s*(?P<rest>.*):$')
    pat_in_b = re.compile(r'^(?:el)?if\s+' + re.escape(var) + r'\s+in\s+(' + _BYTES_LIT + r')\s*(?P<rest>.*):$')
    for idx, ln in enumerate(fn.body):
        m = pat_eq.match(ln.text)
        if m:
            yield idx, [bytes_literal(m.group(1))], ln.text
            continue
        m = pat_in_t.match(ln.text)
        if m:
            vals = [bytes_literal(x.strip()) for x in _split_top(m.group('items')) if x.strip()]
            yield idx, vals, ln.text
            continue
        m = pat_in_b.match(ln.text)
        if m:
            b = bytes_literal(m.group(1))
            yield idx, [bytes([c]) for c in b], ln.text


def pyx_body_to_ast(fn: PyxFunc, relpath: str) -> List[ast.stmt]:
    """Re-render a simple cdef function body as Python source (dropping `cdef T` declarators) and parse it.
    Only for arithmetic helper functions; anything unparsable raises AnalysisError."""
    out: List[str] = []
    base = fn.body[0].indent if fn.body else 0
    for ln in fn.body:
        text = ln.text
        m = re.match(r'cdef\s+[\w\.]+(?:\s*\*)?\s+(.*)$', text)
        if m:
            rest = m.group(1)
            if '=' not in rest:
                continue            # pure declaration
            text = rest
        # C casts `<byte>(expr)` / `<uint_fast16_t>4` and address-of in memcpy/memset arguments have no Python spelling
        text = re.sub(r'<\s*(?:unsigned\s+)?[A-Za-z_]\w*\s*\*?\s*>(?=\s*[\w(])', '', text)
        text = re.sub(r'(?<=[(,\s])&(?=\w+\[)', '', text)
        out.append(' ' * (ln.indent - base) + text)
    src = '\n'.join(out) + '\n'
    try:
        return ast.parse(src).body
    except SyntaxError as exc:
        raise AnalysisError(f'{relpath}: cannot re-parse body of {fn.qualname} as Python: {exc}') from exc
