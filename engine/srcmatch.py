"""E11 - source fragments that do not depend on what a local variable is called.

Many idiom tests in the rules were written as `'<fragment>' in ast.unparse(fn)` or `ast.unparse(node) == '<fragment>'`.  That is a
test on the *shape* of the code - but spelled with the names the locals happen to have today, so a maintainer renaming `entry` to `ent`
turned a recognised idiom into an unknown one (decline) or, worse, a `check` into a false alarm (tools/alpha_rename.py produces exactly
that edit mechanically for the whole package).

`U(node)` is a drop-in for `ast.unparse(node)`: it returns a `Src`, a `str` that remembers the node it came from.  Comparing a `Src` with a
plain string (the rule's fragment) first tries the text, and if that fails parses the fragment and matches it against the syntax tree with
every identifier of the fragment that is neither a builtin, nor `self`/`cls`, nor bound at module level anywhere in the package treated as
a *pattern variable* (bound consistently within the fragment).  So `'$entry.checksum'` semantics come for free: `'entry.checksum' in U(fn)`
holds for `e.checksum` as well.  Two `Src` values (both taken from the repository) are still compared as exact text.

The match is never stricter than the text test it replaces; it is more permissive only in the names of locals and parameters.
"""
from __future__ import annotations

import ast
import builtins
import os
import textwrap
from typing import Any, Dict, List, Optional, Sequence, Set, Tuple, Union

_GLOBALS: Optional[Set[str]] = None
_FRAG_CACHE: Dict[str, Any] = {}
_SKIP = {'ctx', 'lineno', 'col_offset', 'end_lineno', 'end_col_offset', 'type_comment', 'kind', 'type_ignores'}


def _collect_globals() -> Set[str]:
    names: Set[str] = set(dir(builtins)) | {'self', 'cls'}
    root = os.path.join(os.environ.get('VERIF_REPO', '/repo'), 'src', 'srctools')

    def scan(body: Sequence[ast.stmt]) -> None:
        for st in body:
            if isinstance(st, (ast.FunctionDef, ast.AsyncFunctionDef, ast.ClassDef)):
                names.add(st.name)
            elif isinstance(st, (ast.Import, ast.ImportFrom)):
                for al in st.names:
                    names.add((al.asname or al.name).split('.')[0])
            elif isinstance(st, (ast.Assign, ast.AnnAssign, ast.AugAssign)):
                tg = st.targets if isinstance(st, ast.Assign) else [st.target]
                for t in tg:
                    for n in ast.walk(t):
                        if isinstance(n, ast.Name):
                            names.add(n.id)
            elif isinstance(st, (ast.If, ast.Try, ast.With, ast.For, ast.While)):
                scan(st.body)
                scan(getattr(st, 'orelse', []))
                scan(getattr(st, 'finalbody', []))
                for h in getattr(st, 'handlers', []):
                    scan(h.body)
    for dirpath, _, files in os.walk(root):
        for f in files:
            if f.endswith('.py'):
                try:
                    with open(os.path.join(dirpath, f), encoding='utf8') as fh:
                        scan(ast.parse(fh.read()).body)
                except (OSError, SyntaxError):
                    continue
    # common module aliases used in the package / in fragments
    names |= {'os', 're', 'struct', 'math', 'itertools', 'operator', 'io', 'sys', 'lzma', 'zipfile', 'attrs', 'binformat', 'typing', 'copy', 'shutil', 'contextlib', 'functools', 'collections'}
    return names


def globals_() -> Set[str]:
    global _GLOBALS
    if _GLOBALS is None:
        _GLOBALS = _collect_globals()
    return _GLOBALS


def reset() -> None:
    """forget the package-level name table (the self-test points VERIF_REPO at scratch copies)"""
    global _GLOBALS
    _GLOBALS = None


class _Frag:
    def __init__(self, kind: str, nodes: List[ast.AST], open_body: bool) -> None:
        self.kind, self.nodes, self.open_body = kind, nodes, open_body
        self.wild: Set[str] = set()


def parse_fragment(text: str) -> Optional[_Frag]:
    if text in _FRAG_CACHE:
        return _FRAG_CACHE[text]
    frag: Optional[_Frag] = None
    src = textwrap.dedent(text).strip('\n')
    for cand, open_body in ((src, False), (src + '\n    ...', True)):
        if open_body and not src.rstrip().endswith(':'):
            continue
        try:
            body = ast.parse(cand).body
        except (SyntaxError, ValueError, RecursionError):
            continue
        if not body:
            continue
        if len(body) == 1 and isinstance(body[0], ast.Expr) and not open_body:
            frag = _Frag('expr', [body[0].value], False)
        else:
            frag = _Frag('stmts', list(body), open_body)
        break
    if frag is not None:
        g = globals_()
        for nd in frag.nodes:
            for n in ast.walk(nd):
                if isinstance(n, ast.Name) and n.id not in g:
                    frag.wild.add(n.id)
        # a fragment must pin the code down by something other than its pattern variables (an attribute, a global, a keyword, a string):
        # `x is None` or `not data` with x/data free would match almost anything and stay text tests
        anchors = 0
        for nd in frag.nodes:
            for n in ast.walk(nd):
                if isinstance(n, ast.Attribute) or (isinstance(n, ast.Name) and n.id not in frag.wild and n.id not in ('None', 'True', 'False')) \
                        or (isinstance(n, ast.keyword) and n.arg) or (isinstance(n, ast.Constant) and isinstance(n.value, (str, bytes)) and n.value) \
                        or (isinstance(n, ast.Constant) and isinstance(n.value, (int, float)) and not isinstance(n.value, bool) and n.value not in (0, 1, -1)):
                    anchors += 1
        if anchors == 0:
            frag = None
    _FRAG_CACHE[text] = frag
    return frag


def _is_open(body: Any) -> bool:
    return isinstance(body, list) and len(body) == 1 and isinstance(body[0], ast.Expr) and isinstance(body[0].value, ast.Constant) and body[0].value.value is Ellipsis


def match(p: Any, t: Any, wild: Set[str], bind: Dict[str, str], open_ok: bool = False) -> bool:
    if isinstance(p, ast.AST):
        if isinstance(p, ast.Name):
            if not isinstance(t, ast.Name):
                return False
            if p.id in wild:
                if p.id in bind:
                    return bind[p.id] == t.id
                bind[p.id] = t.id
                return True
            return p.id == t.id
        if type(p) is not type(t):
            return False
        for f in p._fields:
            if f in _SKIP:
                continue
            pv, tv = getattr(p, f, None), getattr(t, f, None)
            if f == 'body' and open_ok and _is_open(pv):
                continue
            if f in ('orelse', 'finalbody') and isinstance(pv, list) and not pv and isinstance(p, (ast.If, ast.For, ast.While, ast.Try)):
                continue         # the fragment does not say anything about an else part
            if not match(pv, tv, wild, bind, open_ok):
                return False
        return True
    if isinstance(p, list):
        if not isinstance(t, list) or len(p) != len(t):
            return False
        return all(match(a, b, wild, bind, open_ok) for a, b in zip(p, t))
    if isinstance(p, (int, float, complex, str, bytes)) or p is None or p is Ellipsis:
        return type(p) is type(t) and p == t
    return p == t


def _stmt_lists(node: Any) -> List[List[ast.stmt]]:
    out: List[List[ast.stmt]] = []
    nodes = node if isinstance(node, list) else [node]
    if isinstance(node, list) and all(isinstance(x, ast.stmt) for x in node):
        out.append(node)
    for root in nodes:
        if not isinstance(root, ast.AST):
            continue
        for n in ast.walk(root):
            for f in ('body', 'orelse', 'finalbody'):
                seq = getattr(n, f, None)
                if isinstance(seq, list) and seq and isinstance(seq[0], ast.stmt):
                    out.append(seq)
    return out


def contains(node: Any, frag: _Frag) -> bool:
    nodes = node if isinstance(node, list) else [node]
    if frag.kind == 'expr':
        p = frag.nodes[0]
        for root in nodes:
            if not isinstance(root, ast.AST):
                continue
            for n in ast.walk(root):
                if type(n) is type(p) and match(p, n, frag.wild, {}):
                    return True
        return False
    k = len(frag.nodes)
    singles: List[List[ast.stmt]] = [[r] for r in nodes if isinstance(r, ast.stmt)]
    for seq in _stmt_lists(node) + singles:
        for i in range(0, len(seq) - k + 1):
            bind: Dict[str, str] = {}
            if all(match(frag.nodes[j], seq[i + j], frag.wild, bind, frag.open_body) for j in range(k)):
                return True
    return False


def equals(node: Any, frag: _Frag) -> bool:
    if isinstance(node, list):
        return frag.kind == 'stmts' and len(node) == len(frag.nodes) and match(frag.nodes, node, frag.wild, {}, frag.open_body)
    if frag.kind == 'expr':
        n = node.value if isinstance(node, ast.Expr) else node
        return match(frag.nodes[0], n, frag.wild, {})
    return len(frag.nodes) == 1 and match(frag.nodes[0], node, frag.wild, {}, frag.open_body)


class Src(str):
    """text of a syntax-tree node that compares with rule fragments modulo the names of locals"""
    node: Any

    def __new__(cls, text: str, node: Any) -> 'Src':
        o = super().__new__(cls, text)
        o.node = node
        return o

    def __contains__(self, frag: object) -> bool:          # type: ignore[override]
        if not isinstance(frag, str):
            return False
        if str.__contains__(self, frag):
            return True
        if isinstance(frag, Src) or self.node is None:
            return False
        f = parse_fragment(frag)
        return f is not None and bool(f.wild) and contains(self.node, f)

    def __eq__(self, other: object) -> bool:
        if not isinstance(other, str):
            return NotImplemented
        if str.__eq__(self, other):
            return True
        if isinstance(other, Src) or self.node is None:
            return False
        f = parse_fragment(other)
        return f is not None and bool(f.wild) and equals(self.node, f)

    def __ne__(self, other: object) -> bool:
        r = self.__eq__(other)
        return r if r is NotImplemented else not r

    __hash__ = str.__hash__


def U(node: Any) -> Src:
    """ast.unparse(node) that remembers the node"""
    if isinstance(node, list):
        return Src('\n'.join(ast.unparse(n) for n in node), node)
    return Src(ast.unparse(node), node)


def match_all(found: Sequence[Any], patterns: Sequence[str]) -> bool:
    """every pattern matches exactly one of `found` (Src values) and vice versa, with ONE binding of the pattern variables shared by all
    patterns - so `['a[i + c]', 'a[i + c + h]']` pins down how the expressions relate to each other, whatever a, i, c and h are called.
    (No anchor is required here: the caller asks for the match explicitly.)"""
    if len(found) != len(patterns):
        return False
    if sorted(map(str, found)) == sorted(patterns):
        return True
    frags = []
    for p in patterns:
        try:
            body = ast.parse(textwrap.dedent(p).strip()).body
        except SyntaxError:
            return False
        if len(body) != 1 or not isinstance(body[0], ast.Expr):
            return False
        frags.append(body[0].value)
    g = globals_()
    wild = {n.id for f in frags for n in ast.walk(f) if isinstance(n, ast.Name) and n.id not in g}
    nodes = [getattr(f, 'node', None) for f in found]
    if any(n is None for n in nodes):
        return False

    def rec(i: int, used: Set[int], bind: Dict[str, str]) -> bool:
        if i == len(frags):
            return True
        for j, nd in enumerate(nodes):
            if j in used:
                continue
            b2 = dict(bind)
            if match(frags[i], nd.value if isinstance(nd, ast.Expr) else nd, wild, b2):
                if rec(i + 1, used | {j}, b2):
                    return True
        return False
    return rec(0, set(), {})
