"""E3 - KeyValues-text effect extraction for export-style writers.

A writer emits text through `<file>.write(X)` / `yield X`.  X is flattened into literal pieces and formatted
expressions; a small lexer over the literal pieces tracks whether each expression sits inside a double-quoted
region (a *quoted slot*), which quoted string of its line it belongs to (0 = key position, 1 = value position),
or outside quotes (indentation, bare block names).
"""
from __future__ import annotations

import ast
import re
from typing import Any, Dict, Iterator, List, Optional, Sequence, Set, Tuple

from .model import AnalysisError, Module, call_name, dotted, walk_no_nested


class Piece:
    __slots__ = ('kind', 'text', 'node', 'spec', 'conv')

    def __init__(self, kind: str, text: str = '', node: Optional[ast.AST] = None, spec: str = '', conv: int = -1) -> None:
        self.kind, self.text, self.node, self.spec, self.conv = kind, text, node, spec, conv

    def __repr__(self) -> str:
        return f'L{self.text!r}' if self.kind == 'lit' else f'E<{ast.unparse(self.node)}>'


def flatten(expr: ast.AST, consts: Optional[Dict[str, str]] = None) -> List[Piece]:
    """Flatten a string-building expression into pieces. Unknown sub-expressions become 'expr' pieces."""
    consts = consts or {}
    if isinstance(expr, ast.Constant) and isinstance(expr.value, str):
        return [Piece('lit', expr.value)]
    if isinstance(expr, ast.Name) and expr.id in consts:
        return [Piece('lit', consts[expr.id])]
    if isinstance(expr, ast.JoinedStr):
        out: List[Piece] = []
        for v in expr.values:
            if isinstance(v, ast.Constant):
                out.append(Piece('lit', str(v.value)))
            elif isinstance(v, ast.FormattedValue):
                spec = ''
                if v.format_spec is not None:
                    spec = ''.join(str(x.value) if isinstance(x, ast.Constant) else '{?}' for x in v.format_spec.values)  # type: ignore[attr-defined]
                inner = v.value
                if isinstance(inner, ast.Constant) and isinstance(inner.value, str) and not spec:
                    out.append(Piece('lit', inner.value))
                elif isinstance(inner, ast.IfExp) and not spec and v.conversion == -1 \
                        and all(isinstance(x, ast.Constant) and isinstance(x.value, str) for x in (inner.body, inner.orelse)):
                    # {"1" if cond else "0"}: a choice between literals; keep as expression of 'literal choice' kind
                    out.append(Piece('expr', node=inner, spec=spec, conv=v.conversion))
                else:
                    out.append(Piece('expr', node=inner, spec=spec, conv=v.conversion))
        return out
    if isinstance(expr, ast.BinOp) and isinstance(expr.op, ast.Add):
        return flatten(expr.left, consts) + flatten(expr.right, consts)
    if isinstance(expr, ast.BinOp) and isinstance(expr.op, ast.Mod) and isinstance(expr.left, ast.Constant) and isinstance(expr.left.value, str):
        # 'constant template' % args with only %s / %% directives is the same text as the f-string with those arguments
        args = list(expr.right.elts) if isinstance(expr.right, ast.Tuple) else [expr.right]
        if not isinstance(expr.right, (ast.Dict, ast.Starred)) and not any(isinstance(a, ast.Starred) for a in args):
            parts = re.split(r'(%.)', expr.left.value)
            dirs = [x for x in parts if len(x) == 2 and x[0] == '%']
            if all(d in ('%s', '%%') for d in dirs) and sum(d == '%s' for d in dirs) == len(args) and not expr.left.value.endswith('%'):
                out = []
                it = iter(args)
                for x in parts:
                    if x == '%s':
                        out.append(Piece('expr', node=next(it)))
                    elif x == '%%':
                        out.append(Piece('lit', '%'))
                    elif x:
                        out.append(Piece('lit', x))
                return out
    return [Piece('expr', node=expr)]


class Slot:
    """One formatted expression within an emitted text."""
    __slots__ = ('node', 'spec', 'conv', 'quoted', 'qindex', 'line_key', 'emit', 'prefix', 'suffix_open', 'line_start_bare')

    def __init__(self, node: ast.AST, spec: str, conv: int, quoted: bool, qindex: int, line_key: Optional[str],
                 emit: ast.AST, prefix: str) -> None:
        self.node, self.spec, self.conv = node, spec, conv
        self.quoted = quoted          # inside "..."
        self.qindex = qindex          # number of quoted strings completed on this line before this slot
        self.line_key = line_key      # literal text of the first quoted string on the line, if fully literal
        self.emit = emit              # the write()/yield node
        self.prefix = prefix          # literal text inside the current quoted string before this slot

    @property
    def position(self) -> str:
        if not self.quoted:
            return 'bare'
        return 'key' if self.qindex == 0 else ('value' if self.qindex == 1 else f'extra{self.qindex}')


class Line:
    """One emitted text line: the quoted strings (lists of pieces) and the bare text."""
    __slots__ = ('strings', 'bare', 'emit')

    def __init__(self, emit: ast.AST) -> None:
        self.strings: List[List[Piece]] = []
        self.bare: List[Piece] = []
        self.emit = emit

    def literal(self, i: int) -> Optional[str]:
        if i >= len(self.strings):
            return None
        if all(p.kind == 'lit' for p in self.strings[i]):
            return ''.join(p.text for p in self.strings[i])
        return None

    @property
    def bare_text(self) -> str:
        return ''.join(p.text if p.kind == 'lit' else '\x00' for p in self.bare).strip()


class Emit:
    __slots__ = ('node', 'pieces', 'slots', 'lines', 'ends_open', 'value')

    def __init__(self, node: ast.AST, value: ast.AST, pieces: List[Piece]) -> None:
        self.node, self.value, self.pieces = node, value, pieces
        self.slots: List[Slot] = []
        self.lines: List[Line] = []
        self.ends_open = False


def lex_emit(em: Emit) -> None:
    in_q = False
    qindex = 0
    cur_string: List[Piece] = []
    line = Line(em.node)
    key_literal: Optional[str] = None
    key_known = False
    prefix = ''
    pending_slots: List[Slot] = []

    def end_line() -> None:
        nonlocal line, qindex, key_literal, key_known
        if line.strings or line.bare_text:
            em.lines.append(line)
        lk = line.literal(0)
        for s in pending_slots:
            s.line_key = lk
        pending_slots.clear()
        line = Line(em.node)
        qindex = 0

    for p in em.pieces:
        if p.kind == 'lit':
            buf = ''
            i = 0
            t = p.text
            while i < len(t):
                ch = t[i]
                if in_q:
                    if ch == '\\' and i + 1 < len(t):
                        buf += t[i:i + 2]
                        i += 2
                        continue
                    if ch == '"':
                        if buf:
                            cur_string.append(Piece('lit', buf))
                        line.strings.append(cur_string)
                        cur_string = []
                        buf = ''
                        in_q = False
                        qindex += 1
                        prefix = ''
                    else:
                        buf += ch
                        prefix += ch
                else:
                    if ch == '"':
                        if buf:
                            line.bare.append(Piece('lit', buf))
                        buf = ''
                        in_q = True
                        prefix = ''
                    elif ch == '\n':
                        if buf:
                            line.bare.append(Piece('lit', buf))
                        buf = ''
                        end_line()
                    else:
                        buf += ch
                i += 1
            if buf:
                (cur_string if in_q else line.bare).append(Piece('lit', buf))
        else:
            assert p.node is not None
            s = Slot(p.node, p.spec, p.conv, in_q, qindex, None, em.node, prefix)
            em.slots.append(s)
            pending_slots.append(s)
            (cur_string if in_q else line.bare).append(p)
    em.ends_open = in_q or bool(line.strings or line.bare_text)
    if in_q:
        line.strings.append(cur_string)
    end_line()


def emits_in(fn: ast.AST, writers: Sequence[str] = ('write',), consts: Optional[Dict[str, str]] = None,
             include_yield: bool = True) -> List[Emit]:
    """All text emissions in a function, in source order: `<x>.write(E)` calls and `yield E`."""
    found: List[Tuple[int, int, Emit]] = []
    for n in walk_no_nested(fn):
        if isinstance(n, ast.Call) and isinstance(n.func, ast.Attribute) and n.func.attr in writers and len(n.args) == 1:
            em = Emit(n, n.args[0], flatten(n.args[0], consts))
            found.append((n.lineno, n.col_offset, em))
        elif include_yield and isinstance(n, ast.Yield) and n.value is not None:
            em = Emit(n, n.value, flatten(n.value, consts))
            found.append((n.lineno, n.col_offset, em))
    found.sort(key=lambda t: (t[0], t[1]))
    out = [e for _, _, e in found]
    for e in out:
        lex_emit(e)
    return out


def conversion_of(node: ast.AST) -> Tuple[str, ast.AST]:
    """Classify the outermost conversion applied to a slot expression: returns (conversion name, inner expr)."""
    if isinstance(node, ast.Call):
        fn = dotted(node.func) or ''
        short = fn.split('.')[-1]
        if short in ('escape_text', 'format_float', 'bool_as_int', 'int', 'str', 'len', 'float', 'repr'):
            return short, (node.args[0] if node.args else node)
        if isinstance(node.func, ast.Attribute) and node.func.attr == 'join':
            return 'join', node
        return 'call:' + short, node
    return 'bare', node


# ---------------------------------------------------------------------------------------------
# string-set resolution (for keys that are parameters, loop variables over literal tables, ...)
# ---------------------------------------------------------------------------------------------

class KeyResolver:
    """Resolves an expression used as a key/block name to the set of literal strings it may be.
    A trailing '*' marks a prefix pattern (f'row{y}' -> 'row*')."""

    def __init__(self, mod: Module, folder: Any = None) -> None:
        self.mod = mod
        self.folder = folder
        self._callsites: Optional[Dict[str, List[Tuple[ast.AST, ast.Call]]]] = None

    def callsites(self) -> Dict[str, List[Tuple[ast.AST, ast.Call]]]:
        if self._callsites is None:
            cs: Dict[str, List[Tuple[ast.AST, ast.Call]]] = {}
            for qual, fns in self.mod.all_funcs().items():
                for fn in fns:
                    for c in walk_no_nested(fn):
                        if isinstance(c, ast.Call):
                            name = c.func.attr if isinstance(c.func, ast.Attribute) else (c.func.id if isinstance(c.func, ast.Name) else None)
                            if name:
                                cs.setdefault(name, []).append((fn, c))
            self._callsites = cs
        return self._callsites

    def resolve(self, e: ast.AST, fn: ast.AST, depth: int = 0) -> Optional[Set[str]]:
        """None = unknown."""
        if depth > 5:
            return None
        if isinstance(e, ast.Constant) and isinstance(e.value, str):
            return {e.value}
        if isinstance(e, ast.IfExp):
            a, b = self.resolve(e.body, fn, depth + 1), self.resolve(e.orelse, fn, depth + 1)
            return None if a is None or b is None else a | b
        if isinstance(e, ast.JoinedStr):
            prefix = ''
            for v in e.values:
                if isinstance(v, ast.Constant):
                    prefix += str(v.value)
                else:
                    inner = self.resolve(v.value, fn, depth + 1) if isinstance(v, ast.FormattedValue) else None
                    if inner is not None and len(inner) < 16 and v is e.values[-1]:
                        return {prefix + s for s in inner}
                    return {prefix + '*'}
            return {prefix}
        if isinstance(e, ast.Name):
            # loop variable over a literal / foldable iterable?
            got = self._from_loops(e.id, fn, depth)
            if got is not None:
                return got
            params = [a.arg for a in fn.args.args + fn.args.kwonlyargs] if hasattr(fn, 'args') else []
            if e.id in params:
                idx = params.index(e.id)
                out: Set[str] = set()
                fname = getattr(fn, 'name', None)
                ndefs = sum(1 for q in self.mod.all_funcs() if q.split('.')[-1] == fname)
                if ndefs != 1:
                    return None        # ambiguous method name (e.g. `export`): receivers cannot be told apart syntactically
                sites = self.callsites().get(fname, [])
                if not sites:
                    return None
                is_method = bool(params) and params[0] in ('self', 'cls')
                for caller, c in sites:
                    arg = None
                    pos = idx - (1 if is_method and isinstance(c.func, ast.Attribute) else 0)
                    if 0 <= pos < len(c.args):
                        arg = c.args[pos]
                    for k in c.keywords:
                        if k.arg == e.id:
                            arg = k.value
                    if arg is None:
                        continue
                    r = self.resolve(arg, caller, depth + 1)
                    if r is None:
                        return None
                    out |= r
                return out or None
            # single local assignment
            for n in walk_no_nested(fn):
                if isinstance(n, ast.Assign) and len(n.targets) == 1 and isinstance(n.targets[0], ast.Name) and n.targets[0].id == e.id:
                    return self.resolve(n.value, fn, depth + 1)
            return None
        return None

    def _from_loops(self, name: str, fn: ast.AST, depth: int) -> Optional[Set[str]]:
        for n in walk_no_nested(fn):
            gens: List[Tuple[ast.AST, ast.AST]] = []
            if isinstance(n, ast.For):
                gens.append((n.target, n.iter))
            elif isinstance(n, ast.comprehension):
                gens.append((n.target, n.iter))
            for tgt, it in gens:
                pos = None
                if isinstance(tgt, ast.Name) and tgt.id == name:
                    pos = -1
                elif isinstance(tgt, (ast.Tuple, ast.List)):
                    for i, el in enumerate(tgt.elts):
                        if isinstance(el, ast.Name) and el.id == name:
                            pos = i
                if pos is None:
                    continue
                # zip(lit, ...) / enumerate
                if isinstance(it, ast.Call) and dotted(it.func) == 'zip' and pos >= 0 and pos < len(it.args):
                    it, pos = it.args[pos], -1
                vals = None
                if isinstance(it, (ast.Tuple, ast.List)):
                    vals = it.elts
                    out: Set[str] = set()
                    for el in vals:
                        if pos >= 0:
                            if isinstance(el, (ast.Tuple, ast.List)) and pos < len(el.elts):
                                el = el.elts[pos]
                            else:
                                return None
                        r = self.resolve(el, fn, depth + 1)
                        if r is None:
                            return None
                        out |= r
                    return out
                if isinstance(it, ast.Name):
                    try:
                        tnode = self.mod.global_assign(it.id)
                    except Exception:  # noqa: BLE001
                        tnode = None
                    if isinstance(tnode, ast.ListComp) and isinstance(tnode.elt, (ast.Tuple, ast.List)) and 0 <= pos < len(tnode.elt.elts):
                        r = self.resolve(tnode.elt.elts[pos], self.mod.tree, depth + 1)
                        if r is not None:
                            return r
                if isinstance(it, ast.Name) and self.folder is not None:
                    try:
                        table = self.folder.global_(it.id)
                    except Exception:  # noqa: BLE001
                        table = None
                    if isinstance(table, (list, tuple)):
                        out2: Set[str] = set()
                        for row in table:
                            v = row[pos] if pos >= 0 and isinstance(row, (list, tuple)) else row
                            if isinstance(v, str):
                                out2.add(v)
                            else:
                                return None
                        return out2
                if isinstance(it, ast.Call) and dotted(it.func) == 'range':
                    return None
        return None


READER_METHODS = {'int', 'float', 'bool', 'vec', 'find_key', 'find_block', 'find_children', 'find_all', 'ensure_exists'}


def reader_keys(fn: ast.AST, res: KeyResolver) -> Tuple[Set[str], List[str]]:
    """String keys consumed by a KV-reading function (case kept; compare casefolded). Returns (keys, unknown notes)."""
    keys: Set[str] = set()
    unknown: List[str] = []

    def add(e: ast.AST) -> None:
        r = res.resolve(e, fn)
        if r is None:
            unknown.append(ast.unparse(e))
        else:
            keys.update(r)

    # locals that hold a key name: assigned from `<x>.name` / `<x>.real_name` (possibly folded), whatever they are called
    name_locals: Set[str] = {'name'}
    for a in walk_no_nested(fn):
        if isinstance(a, (ast.Assign, ast.AnnAssign)) and getattr(a, 'value', None) is not None:
            v = a.value
            while isinstance(v, ast.Call) and isinstance(v.func, ast.Attribute) and v.func.attr in ('casefold', 'lower', 'strip') and not v.args:
                v = v.func.value
            if isinstance(v, ast.Attribute) and v.attr in ('name', 'real_name'):
                for t in (a.targets if isinstance(a, ast.Assign) else [a.target]):
                    if isinstance(t, ast.Name):
                        name_locals.add(t.id)

    def holds_name(x: ast.AST) -> bool:
        while isinstance(x, ast.Call) and isinstance(x.func, ast.Attribute) and x.func.attr in ('casefold', 'lower') and not x.args:
            x = x.func.value
        return (isinstance(x, ast.Name) and x.id in name_locals) or (isinstance(x, ast.Attribute) and x.attr in ('name', 'real_name'))

    for n in walk_no_nested(fn):
        if isinstance(n, ast.Subscript) and isinstance(n.ctx, ast.Load):
            sl = n.slice
            if isinstance(sl, ast.Constant) and isinstance(sl.value, str):
                keys.add(sl.value)
            elif isinstance(sl, ast.Tuple) and sl.elts and isinstance(sl.elts[0], ast.Constant) and isinstance(sl.elts[0].value, str):
                keys.add(sl.elts[0].value)
        elif isinstance(n, ast.Call) and isinstance(n.func, ast.Attribute) and n.func.attr in READER_METHODS and n.args:
            args = n.args if n.func.attr == 'find_all' else n.args[:1]
            for a in args:
                if isinstance(a, ast.Constant) and not isinstance(a.value, str):
                    continue
                add(a)
        elif isinstance(n, ast.Call) and isinstance(n.func, ast.Attribute) and n.func.attr == 'startswith' and n.args \
                and isinstance(n.args[0], ast.Constant) and isinstance(n.args[0].value, str):
            recv = ast.unparse(n.func.value)
            if recv.endswith('name') or recv == 'name' or holds_name(n.func.value):
                keys.add(n.args[0].value + '*')
        elif isinstance(n, ast.Call) and isinstance(n.func, ast.Attribute) and n.func.attr in ('match', 'fullmatch', 'search') and n.args \
                and (ast.unparse(n.args[-1]).endswith('name') or ast.unparse(n.args[-1]) == 'name' or holds_name(n.args[-1])):
            # key recognised by a regular expression: `_ROW_KEY.match(prop.name)` / `re.match(r'row(\d+)', prop.name)`
            pat = None
            if isinstance(n.func.value, ast.Name) and n.func.value.id != 're':
                try:
                    pv = res.mod.global_assign(n.func.value.id)
                except Exception:
                    pv = None
                if isinstance(pv, ast.Call) and pv.args and isinstance(pv.args[0], ast.Constant) and isinstance(pv.args[0].value, str):
                    pat = pv.args[0].value
            elif len(n.args) == 2 and isinstance(n.args[0], ast.Constant) and isinstance(n.args[0].value, str):
                pat = n.args[0].value
            if pat is None:
                unknown.append(ast.unparse(n)[:60])
            else:
                import re as _re
                m_ = _re.match(r'\^?([A-Za-z0-9_]+)', pat)
                if m_ and n.func.attr != 'search':
                    keys.add(m_.group(1) + ('*' if len(m_.group(0)) < len(pat) else ''))
                else:
                    unknown.append(ast.unparse(n)[:60])
        elif isinstance(n, ast.Compare) and len(n.ops) == 1:
            l, r = n.left, n.comparators[0]
            def is_name(x: ast.AST) -> bool:
                s = ast.unparse(x)
                return s == 'name' or s.endswith('.name') or s.endswith('.real_name') or holds_name(x)
            if isinstance(n.ops[0], (ast.Eq, ast.NotEq)):
                for a, b in ((l, r), (r, l)):
                    if is_name(a) and isinstance(b, ast.Constant) and isinstance(b.value, str):
                        keys.add(b.value)
            elif isinstance(n.ops[0], (ast.In, ast.NotIn)):
                if isinstance(l, ast.Constant) and isinstance(l.value, str) and not isinstance(r, (ast.Constant, ast.Tuple, ast.List, ast.Set)):
                    keys.add(l.value)
                elif is_name(l) and isinstance(r, (ast.Tuple, ast.List, ast.Set)):
                    for el in r.elts:
                        if isinstance(el, ast.Constant) and isinstance(el.value, str):
                            keys.add(el.value)
    return keys, unknown


def writer_keys(fn: ast.AST, res: KeyResolver, include_return: bool = False) -> Tuple[Set[str], Set[str], List[str]]:
    """(quoted keys, bare block names, unknown notes) emitted by a KV-writing function."""
    keys: Set[str] = set()
    blocks: Set[str] = set()
    unknown: List[str] = []
    for em in emits_in(fn):
        for ln in em.lines:
            if ln.strings:
                first = ln.strings[0]
                lit = ln.literal(0)
                if lit is not None:
                    keys.add(lit)
                else:
                    # literal prefix + slots
                    expr = ast.JoinedStr(values=[ast.Constant(value=p.text) if p.kind == 'lit' else ast.FormattedValue(value=p.node, conversion=-1, format_spec=None) for p in first])
                    r = res.resolve(expr, fn)
                    if r is None:
                        unknown.append('key ' + ''.join(p.text if p.kind == 'lit' else '{' + ast.unparse(p.node) + '}' for p in first))
                    else:
                        keys.update(r)
            else:
                # bare line: a block name or braces/indent
                parts = [p for p in ln.bare if not (p.kind == 'lit' and not p.text.strip())]
                text = ''.join(p.text for p in ln.bare if p.kind == 'lit').strip()
                slots = [p for p in ln.bare if p.kind == 'expr']
                if text in ('{', '}') or (not text and not slots):
                    continue
                word_slots = []
                for p in slots:
                    # indentation parameters are not names
                    nm = ast.unparse(p.node)
                    if nm.startswith('ind') or nm in ('cur_indent', 'indent'):
                        continue
                    word_slots.append(p)
                if text.strip('{}').strip() and not word_slots:
                    blocks.add(text.strip('{}').strip())
                for p in word_slots:
                    r = res.resolve(p.node, fn)
                    if r is None and text.strip('{}').strip():
                        blocks.add(text.strip('{}').strip() + '*')
                    elif r is None:
                        unknown.append('block ' + ast.unparse(p.node))
                    else:
                        blocks.update(x if not text.strip('{}').strip() else text.strip('{}').strip() + x for x in r)
    return keys, blocks, unknown
