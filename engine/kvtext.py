"""E3 - KeyValues-text effect extraction for export-style writers.

A writer emits text through `<file>.write(X)` / `yield X`.  X is flattened into literal pieces and formatted
expressions; a small lexer over the literal pieces tracks whether each expression sits inside a double-quoted
region (a *quoted slot*), which quoted string of its line it belongs to (0 = key position, 1 = value position),
or outside quotes (indentation, bare block names).
"""
from __future__ import annotations

import ast
from typing import Any, Dict, Iterator, List, Optional, Sequence, Tuple

from .model import AnalysisError, Module, call_name, dotted, walk_no_nested


class Piece:
    __slots__ = ('kind', 'text', 'node', 'spec', 'conv')

    def __init__(self, kind: str, text: str = '', node: Optional[ast.AST] = None, spec: str = '', conv: int = -1) -> None:
        self.kind, self.text, self.node, self.spec, self.conv = kind, text, node, spec, conv

    def __repr__(self) -> str:
        return f'L{self.text!r}' if self.kind == 'lit' else f'E<{ast.unparse(self.node)}>'


def flatten(expr: ast.AST, consts: Optional[Dict[str, str]] = None) -> List[Piece]:
    """Flatten a string-building expression into pieces. Unknown sub-expressions become 'expr' pieces."""
    consts = consts or {}
    if isinstance(expr, ast.Constant) and isinstance(expr.value, str):
        return [Piece('lit', expr.value)]
    if isinstance(expr, ast.Name) and expr.id in consts:
        return [Piece('lit', consts[expr.id])]
    if isinstance(expr, ast.JoinedStr):
        out: List[Piece] = []
        for v in expr.values:
            if isinstance(v, ast.Constant):
                out.append(Piece('lit', str(v.value)))
            elif isinstance(v, ast.FormattedValue):
                spec = ''
                if v.format_spec is not None:
                    spec = ''.join(str(x.value) if isinstance(x, ast.Constant) else '{?}' for x in v.format_spec.values)  # type: ignore[attr-defined]
                inner = v.value
                if isinstance(inner, ast.Constant) and isinstance(inner.value, str) and not spec:
                    out.append(Piece('lit', inner.value))
                elif isinstance(inner, ast.IfExp) and not spec and v.conversion == -1 \
                        and all(isinstance(x, ast.Constant) and isinstance(x.value, str) for x in (inner.body, inner.orelse)):
                    # {"1" if cond else "0"}: a choice between literals; keep as expression of 'literal choice' kind
                    out.append(Piece('expr', node=inner, spec=spec, conv=v.conversion))
                else:
                    out.append(Piece('expr', node=inner, spec=spec, conv=v.conversion))
        return out
    if isinstance(expr, ast.BinOp) and isinstance(expr.op, ast.Add):
        return flatten(expr.left, consts) + flatten(expr.right, consts)
    return [Piece('expr', node=expr)]


class Slot:
    """One formatted expression within an emitted text."""
    __slots__ = ('node', 'spec', 'conv', 'quoted', 'qindex', 'line_key', 'emit', 'prefix', 'suffix_open', 'line_start_bare')

    def __init__(self, node: ast.AST, spec: str, conv: int, quoted: bool, qindex: int, line_key: Optional[str],
                 emit: ast.AST, prefix: str) -> None:
        self.node, self.spec, self.conv = node, spec, conv
        self.quoted = quoted          # inside "..."
        self.qindex = qindex          # number of quoted strings completed on this line before this slot
        self.line_key = line_key      # literal text of the first quoted string on the line, if fully literal
        self.emit = emit              # the write()/yield node
        self.prefix = prefix          # literal text inside the current quoted string before this slot

    @property
    def position(self) -> str:
        if not self.quoted:
            return 'bare'
        return 'key' if self.qindex == 0 else ('value' if self.qindex == 1 else f'extra{self.qindex}')


class Line:
    """One emitted text line: the quoted strings (lists of pieces) and the bare text."""
    __slots__ = ('strings', 'bare', 'emit')

    def __init__(self, emit: ast.AST) -> None:
        self.strings: List[List[Piece]] = []
        self.bare: List[Piece] = []
        self.emit = emit

    def literal(self, i: int) -> Optional[str]:
        if i >= len(self.strings):
            return None
        if all(p.kind == 'lit' for p in self.strings[i]):
            return ''.join(p.text for p in self.strings[i])
        return None

    @property
    def bare_text(self) -> str:
        return ''.join(p.text if p.kind == 'lit' else '\x00' for p in self.bare).strip()


class Emit:
    __slots__ = ('node', 'pieces', 'slots', 'lines', 'ends_open', 'value')

    def __init__(self, node: ast.AST, value: ast.AST, pieces: List[Piece]) -> None:
        self.node, self.value, self.pieces = node, value, pieces
        self.slots: List[Slot] = []
        self.lines: List[Line] = []
        self.ends_open = False


def lex_emit(em: Emit) -> None:
    in_q = False
    qindex = 0
    cur_string: List[Piece] = []
    line = Line(em.node)
    key_literal: Optional[str] = None
    key_known = False
    prefix = ''
    pending_slots: List[Slot] = []

    def end_line() -> None:
        nonlocal line, qindex, key_literal, key_known
        if line.strings or line.bare_text:
            em.lines.append(line)
        lk = line.literal(0)
        for s in pending_slots:
            s.line_key = lk
        pending_slots.clear()
        line = Line(em.node)
        qindex = 0

    for p in em.pieces:
        if p.kind == 'lit':
            buf = ''
            i = 0
            t = p.text
            while i < len(t):
                ch = t[i]
                if in_q:
                    if ch == '\\' and i + 1 < len(t):
                        buf += t[i:i + 2]
                        i += 2
                        continue
                    if ch == '"':
                        if buf:
                            cur_string.append(Piece('lit', buf))
                        line.strings.append(cur_string)
                        cur_string = []
                        buf = ''
                        in_q = False
                        qindex += 1
                        prefix = ''
                    else:
                        buf += ch
                        prefix += ch
                else:
                    if ch == '"':
                        if buf:
                            line.bare.append(Piece('lit', buf))
                        buf = ''
                        in_q = True
                        prefix = ''
                    elif ch == '\n':
                        if buf:
                            line.bare.append(Piece('lit', buf))
                        buf = ''
                        end_line()
                    else:
                        buf += ch
                i += 1
            if buf:
                (cur_string if in_q else line.bare).append(Piece('lit', buf))
        else:
            assert p.node is not None
            s = Slot(p.node, p.spec, p.conv, in_q, qindex, None, em.node, prefix)
            em.slots.append(s)
            pending_slots.append(s)
            (cur_string if in_q else line.bare).append(p)
    em.ends_open = in_q or bool(line.strings or line.bare_text)
    if in_q:
        line.strings.append(cur_string)
    end_line()


def emits_in(fn: ast.AST, writers: Sequence[str] = ('write',), consts: Optional[Dict[str, str]] = None,
             include_yield: bool = True) -> List[Emit]:
    """All text emissions in a function, in source order: `<x>.write(E)` calls and `yield E`."""
    found: List[Tuple[int, int, Emit]] = []
    for n in walk_no_nested(fn):
        if isinstance(n, ast.Call) and isinstance(n.func, ast.Attribute) and n.func.attr in writers and len(n.args) == 1:
            em = Emit(n, n.args[0], flatten(n.args[0], consts))
            found.append((n.lineno, n.col_offset, em))
        elif include_yield and isinstance(n, ast.Yield) and n.value is not None:
            em = Emit(n, n.value, flatten(n.value, consts))
            found.append((n.lineno, n.col_offset, em))
    found.sort(key=lambda t: (t[0], t[1]))
    out = [e for _, _, e in found]
    for e in out:
        lex_emit(e)
    return out


def conversion_of(node: ast.AST) -> Tuple[str, ast.AST]:
    """Classify the outermost conversion applied to a slot expression: returns (conversion name, inner expr)."""
    if isinstance(node, ast.Call):
        fn = dotted(node.func) or ''
        short = fn.split('.')[-1]
        if short in ('escape_text', 'format_float', 'bool_as_int', 'int', 'str', 'len', 'float', 'repr'):
            return short, (node.args[0] if node.args else node)
        if isinstance(node.func, ast.Attribute) and node.func.attr == 'join':
            return 'join', node
        return 'call:' + short, node
    return 'bare', node
