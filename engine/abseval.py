"""E6 - finite-domain evaluator for character state machines.

The tokenizer's handlers only touch characters through comparisons with constants, membership in
constant strings/sets and lookups in constant tables.  Partitioning the alphabet into "each character
mentioned in the function or its tables" + OTHER + EOF(None) therefore makes every test determinate, and
the handler's transition function can be tabulated exactly by evaluating the loop body once per
(state, character class).  This is an abstract interpretation over a finite partition: nothing from the
repository is imported or run, and any construct outside the small statement/expression subset below is an
AnalysisError (exit 2).
"""
from __future__ import annotations

import ast
from typing import Any, Callable, Dict, List, Optional, Sequence, Set, Tuple

from .fold import EnumMember, EnumTable, Folder, FoldError
from .model import AnalysisError, Module, dotted


class _Other:
    """A character different from every character mentioned anywhere in the analysed code."""

    def __repr__(self) -> str:
        return '<OTHER>'


OTHER = _Other()


class ErrorValue:
    """The result of self.error(...): an instance of the tokenizer's error type."""

    def __init__(self, args: Sequence[Any]) -> None:
        self.args = list(args)

    def __repr__(self) -> str:
        return 'self.error(...)'


class Concat:
    """A string built from pieces (constants / OTHER)."""

    def __init__(self, parts: Sequence[Any]) -> None:
        self.parts = list(parts)

    def __eq__(self, o: object) -> bool:
        return isinstance(o, Concat) and self.parts == o.parts

    def __hash__(self) -> int:
        return hash(tuple(map(repr, self.parts)))

    def __repr__(self) -> str:
        return 'Concat(%r)' % (self.parts,)


class Joined:
    """''.join(<list var>) - the accumulated characters."""

    def __init__(self, items: Sequence[Any]) -> None:
        self.items = list(items)

    def __repr__(self) -> str:
        return 'Joined(%r)' % (self.items,)


class Outcome:
    def __init__(self, kind: str, value: Any, m: 'Machine') -> None:
        self.kind = kind            # 'next' | 'return' | 'raise' | 'break' | 'need-input' | 'fallthrough'
        self.value = value
        self.env = dict(m.env)
        self.selfattrs = dict(m.selfattrs)
        self.consumed = m.pos
        self.rewinds = m.rewinds
        self.line_incs = m.line_incs
        self.lists = {k: list(v) for k, v in m.lists.items()}
        self.inputs = list(m.inputs[:m.max_pos])
        self.flags = dict(m.flag_values)
        self.choices = dict(m.choices)
        self.double_rewind = m.double_rewind
        self.ends_after_rewind = m.last_was_rewind
        self.reads_before_write = set(m.reads_before_write)
        self.real_reads = m.real_reads
        self.eof_reads = m.eof_reads
        self.calls = list(m.calls)

    def __repr__(self) -> str:
        return f'<{self.kind} {self.value!r} consumed={self.consumed} lists={self.lists}>'


class _Signal(Exception):
    def __init__(self, kind: str, value: Any = None) -> None:
        self.kind, self.value = kind, value


class _PyExc(Exception):
    """A modelled Python exception (KeyError from a table lookup)."""

    def __init__(self, name: str) -> None:
        self.name = name


# the token functions themselves and the chunk cursor are modelled, never inlined
NOT_INLINED = {'_next_char', 'error', '_get_token', '_handle_string', '_handle_comment', '__call__', 'push_back', 'peek', 'expect', 'skipping_newlines', 'block'}


class Machine:
    def __init__(self, mod: Module, folder: Folder, inputs: Sequence[Any], env: Dict[str, Any],
                 selfattrs: Dict[str, Any], lists: Optional[Dict[str, List[Any]]] = None,
                 methods: Optional[Dict[str, Callable[['Machine', List[Any]], Any]]] = None) -> None:
        self.mod, self.folder = mod, folder
        self.inputs = list(inputs)
        self.pos = 0
        self.env = dict(env)
        self.selfattrs = dict(selfattrs)
        self.lists: Dict[str, List[Any]] = {k: list(v) for k, v in (lists or {}).items()}
        self.rewinds = 0
        self.line_incs = 0
        self.methods = methods or {}
        self.steps = 0
        self.max_pos = 0
        self.lazy_flags: Set[str] = set()
        self.flag_values: Dict[str, Any] = {}
        self.choices: Dict[str, Any] = {}
        self.stop_at_loops = False
        self.last_was_rewind = True      # conservative: the previous iteration / caller may have ended with a rewind
        self.double_rewind = False
        self.reads_before_write: Set[str] = set()
        self.written: Set[str] = set()
        self.real_reads = 0
        self.eof_reads = 0
        self.calls: List[str] = []

    # -- small helper methods of the same class are interpreted in place (same cursor, same attributes, own locals) ---------------------
    def _helper(self, name: str) -> Optional[ast.AST]:
        for cname in ('Tokenizer', 'BaseTokenizer'):
            if self.mod.has_class(cname):
                m = self.mod.methods(cname).get(name)
                if m is not None:
                    return m
        return None

    def _inline(self, fn: ast.AST, args: List[Any], call: ast.AST) -> Any:
        self.inline_depth = getattr(self, 'inline_depth', 0) + 1
        if self.inline_depth > 3:
            raise AnalysisError(f'{self.mod.relpath}:{getattr(call, "lineno", 0)}: helper calls nested too deeply')
        params = [a.arg for a in fn.args.args][1:]          # type: ignore[attr-defined]
        if len(params) != len(args):
            raise AnalysisError(f'{self.mod.relpath}:{getattr(call, "lineno", 0)}: helper call arity not modelled')
        saved_env, saved_written = self.env, self.written
        self.env, self.written = dict(zip(params, args)), set(params)
        try:
            try:
                self.exec_block(fn.body)                  # type: ignore[attr-defined]
                return None
            except _Signal as sig:
                if sig.kind == 'return':
                    return sig.value
                raise
        finally:
            self.env, self.written = saved_env, saved_written
            self.inline_depth -= 1

    def choose(self, key: str, options: Sequence[Any]) -> Any:
        if key not in self.choices:
            raise _Signal('need-choice', (key, list(options)))
        return self.choices[key]

    # -- driving -------------------------------------------------------------------------------
    def run_body(self, body: Sequence[ast.stmt], in_loop: bool) -> Outcome:
        try:
            self.exec_block(body)
        except _Signal as s:
            if s.kind == 'continue' and in_loop:
                return Outcome('next', None, self)
            if s.kind == 'break' and in_loop:
                return Outcome('break', None, self)
            if s.kind in ('return', 'raise', 'need-input', 'need-flag', 'need-choice', 'inner-loop'):
                return Outcome(s.kind, s.value, self)
            raise AnalysisError(f'{self.mod.relpath}: unexpected control signal {s.kind}')
        except _PyExc as e:
            return Outcome('raise', 'python:' + e.name, self)
        return Outcome('next' if in_loop else 'fallthrough', None, self)

    # -- statements ----------------------------------------------------------------------------
    def exec_block(self, body: Sequence[ast.stmt]) -> None:
        for st in body:
            self.exec_stmt(st)

    def exec_stmt(self, st: ast.stmt) -> None:
        self.steps += 1
        if self.steps > 20000:
            raise AnalysisError(f'{self.mod.relpath}: evaluator step limit exceeded (loop without progress?)')
        if isinstance(st, ast.Expr):
            if isinstance(st.value, ast.Constant):
                return
            self.eval(st.value)
            return
        if isinstance(st, ast.Assign):
            val = self.eval(st.value)
            for t in st.targets:
                self.assign(t, val)
            return
        if isinstance(st, ast.AnnAssign):
            if st.value is not None:
                self.assign(st.target, self.eval(st.value))
            return
        if isinstance(st, ast.AugAssign):
            tgt = dotted(st.target)
            if tgt == 'self.line_num' and isinstance(st.op, ast.Add) and self.eval(st.value) == 1:
                self.line_incs += 1
                return
            if tgt == 'self._char_index' and isinstance(st.op, ast.Sub) and self.eval(st.value) == 1:
                self.rewinds += 1
                if self.last_was_rewind:
                    self.double_rewind = True
                self.last_was_rewind = True
                if self.pos > 0:
                    self.pos -= 1
                return
            raise AnalysisError(f'{self.mod.relpath}:{st.lineno}: unsupported augmented assignment `{ast.unparse(st)}`')
        if isinstance(st, ast.If):
            if self.truth(self.eval(st.test)):
                self.exec_block(st.body)
            else:
                self.exec_block(st.orelse)
            return
        if isinstance(st, ast.While):
            if not (isinstance(st.test, ast.Constant) and st.test.value is True):
                raise AnalysisError(f'{self.mod.relpath}:{st.lineno}: only `while True` loops are modelled')
            if self.stop_at_loops:
                raise _Signal('inner-loop', st)
            while True:
                try:
                    self.exec_block(st.body)
                except _Signal as s:
                    if s.kind == 'continue':
                        continue
                    if s.kind == 'break':
                        break
                    raise
            return
        if isinstance(st, ast.Continue):
            raise _Signal('continue')
        if isinstance(st, ast.Break):
            raise _Signal('break')
        if isinstance(st, ast.Pass):
            return
        if isinstance(st, ast.Return):
            raise _Signal('return', self.eval(st.value) if st.value is not None else None)
        if isinstance(st, ast.Raise):
            raise _Signal('raise', self.eval(st.exc) if st.exc is not None else None)
        if isinstance(st, ast.Try):
            if st.finalbody:
                raise AnalysisError(f'{self.mod.relpath}:{st.lineno}: try/finally not modelled')
            try:
                self.exec_block(st.body)
            except _PyExc as e:
                for h in st.handlers:
                    names = []
                    if h.type is None:
                        names = [e.name]
                    elif isinstance(h.type, ast.Tuple):
                        names = [dotted(x) for x in h.type.elts]
                    else:
                        names = [dotted(h.type)]
                    if e.name in names:
                        self.exec_block(h.body)
                        return
                raise
            else:
                self.exec_block(st.orelse)
            return
        raise AnalysisError(f'{self.mod.relpath}:{st.lineno}: statement kind {type(st).__name__} not modelled: `{ast.unparse(st)[:80]}`')

    def assign(self, t: ast.AST, val: Any) -> None:
        if isinstance(t, ast.Name):
            self.written.add(t.id)
            if isinstance(val, list):
                self.lists[t.id] = val
                self.env.pop(t.id, None)
            else:
                self.env[t.id] = val
                self.lists.pop(t.id, None) if not isinstance(val, list) else None
            return
        d = dotted(t)
        if d and d.startswith('self.') and d.count('.') == 1:
            self.selfattrs[d[5:]] = val
            return
        raise AnalysisError(f'{self.mod.relpath}:{getattr(t, "lineno", 0)}: unsupported assignment target `{ast.unparse(t)}`')

    # -- expressions ---------------------------------------------------------------------------
    def truth(self, v: Any) -> bool:
        if v is OTHER:
            return True
        if isinstance(v, (Concat, Joined, ErrorValue)):
            return True
        return bool(v)

    def eval(self, n: ast.AST) -> Any:
        if isinstance(n, ast.Constant):
            return n.value
        if isinstance(n, ast.NamedExpr):
            v = self.eval(n.value)
            self.assign(n.target, v)
            return v
        if isinstance(n, ast.Name):
            if n.id in self.env:
                if n.id not in self.written:
                    self.reads_before_write.add(n.id)
                return self.env[n.id]
            if n.id in self.lists:
                if n.id not in self.written:
                    self.reads_before_write.add(n.id)
                return self.lists[n.id]
            try:
                return self.folder.global_(n.id)
            except FoldError as exc:
                raise AnalysisError(f'{self.mod.relpath}:{n.lineno}: unknown name {n.id} in evaluated slice ({exc})') from None
        if isinstance(n, ast.Attribute):
            d = dotted(n)
            if d and d.startswith('self.') and d.count('.') == 1:
                a = d[5:]
                if a in self.selfattrs:
                    return self.selfattrs[a]
                if a in self.lazy_flags:
                    if a not in self.flag_values:
                        raise _Signal('need-flag', a)
                    return self.flag_values[a]
                raise AnalysisError(f'{self.mod.relpath}:{n.lineno}: self.{a} read but not part of the modelled state')
            try:
                return self.folder.fold(n, {})
            except FoldError as exc:
                raise AnalysisError(f'{self.mod.relpath}:{n.lineno}: cannot evaluate `{ast.unparse(n)}` ({exc})') from None
        if isinstance(n, ast.Tuple):
            return tuple(self.eval(e) for e in n.elts)
        if isinstance(n, ast.List):
            return [self.eval(e) for e in n.elts]
        if isinstance(n, ast.UnaryOp) and isinstance(n.op, ast.Not):
            return not self.truth(self.eval(n.operand))
        if isinstance(n, ast.UnaryOp) and isinstance(n.op, ast.USub) and isinstance(n.operand, ast.Constant) and isinstance(n.operand.value, int):
            return -n.operand.value
        if isinstance(n, ast.BoolOp):
            if isinstance(n.op, ast.And):
                v: Any = True
                for x in n.values:
                    v = self.eval(x)
                    if not self.truth(v):
                        return v
                return v
            v = False
            for x in n.values:
                v = self.eval(x)
                if self.truth(v):
                    return v
            return v
        if isinstance(n, ast.IfExp):
            return self.eval(n.body) if self.truth(self.eval(n.test)) else self.eval(n.orelse)
        if isinstance(n, ast.Compare):
            left = self.eval(n.left)
            for op, c in zip(n.ops, n.comparators):
                right = self.eval(c)
                if not self.compare(op, left, right, n):
                    return False
                left = right
            return True
        if isinstance(n, ast.BinOp) and isinstance(n.op, ast.Add):
            l, r = self.eval(n.left), self.eval(n.right)
            if isinstance(l, str) and isinstance(r, str):
                return l + r
            if (isinstance(l, str) or l is OTHER) and (isinstance(r, str) or r is OTHER):
                return Concat([l, r])
            raise AnalysisError(f'{self.mod.relpath}:{n.lineno}: `+` on non-string values in evaluated slice: `{ast.unparse(n)}` ({l!r}, {r!r})')
        if isinstance(n, ast.Subscript):
            base = self.eval(n.value)
            idx = self.eval(n.slice)
            if isinstance(base, dict):
                if idx is OTHER or idx is None or idx not in base:
                    raise _PyExc('KeyError')
                return base[idx]
            if isinstance(base, list) and isinstance(idx, int) and not isinstance(idx, bool):
                # element of a modelled accumulator list: only the last element is part of the abstract state
                if idx != -1:
                    raise AnalysisError(f'{self.mod.relpath}:{n.lineno}: `{ast.unparse(n)}` looks deeper into the accumulator than its last element (not modelled)')
                if not base:
                    raise _PyExc('IndexError')
                return base[-1]
            raise AnalysisError(f'{self.mod.relpath}:{n.lineno}: subscript of non-table `{ast.unparse(n)}`')
        if isinstance(n, ast.Call):
            return self.call(n)
        if isinstance(n, ast.JoinedStr):
            return Concat(['<fstring>'])
        raise AnalysisError(f'{self.mod.relpath}:{getattr(n, "lineno", 0)}: expression kind {type(n).__name__} not modelled: `{ast.unparse(n)[:80]}`')

    def compare(self, op: ast.cmpop, a: Any, b: Any, n: ast.AST) -> bool:
        if isinstance(op, (ast.Eq, ast.NotEq)):
            if a is OTHER or b is OTHER:
                eq = a is b
            else:
                eq = (a == b)
            return eq if isinstance(op, ast.Eq) else not eq
        if isinstance(op, (ast.Is, ast.IsNot)):
            if isinstance(a, EnumMember) and isinstance(b, EnumMember):
                same = a == b
            else:
                same = a is b or (a is None and b is None) or (isinstance(a, bool) and isinstance(b, bool) and a == b)
            return same if isinstance(op, ast.Is) else not same
        if isinstance(op, (ast.In, ast.NotIn)):
            if a is None and isinstance(b, str):
                # `None in 'abc'` raises TypeError at run time
                raise _PyExc('TypeError')
            if isinstance(b, (str, frozenset, set, tuple, list, dict)):
                if a is OTHER:
                    res = False
                elif isinstance(b, str):
                    if not isinstance(a, str):
                        raise _PyExc('TypeError')
                    res = a in b
                else:
                    res = a in b
                return res if isinstance(op, ast.In) else not res
        raise AnalysisError(f'{self.mod.relpath}:{getattr(n, "lineno", 0)}: comparison not modelled: `{ast.unparse(n)}`')

    def call(self, n: ast.Call) -> Any:
        fn = dotted(n.func)
        if fn == 'self._next_char':
            if self.pos >= len(self.inputs):
                raise _Signal('need-input')
            v = self.inputs[self.pos]
            self.pos += 1
            self.max_pos = max(self.max_pos, self.pos)
            self.last_was_rewind = False
            if v is None:
                self.eof_reads += 1
            else:
                self.real_reads += 1
            return v
        if fn == 'self.error':
            return ErrorValue([self.eval(a) for a in n.args])
        if fn and fn.startswith('self.') and fn[5:] in self.methods:
            self.calls.append(fn[5:])
            return self.methods[fn[5:]](self, [self.eval(a) for a in n.args])
        if fn and fn.startswith('self.') and fn.count('.') == 1 and fn[5:] not in NOT_INLINED:
            helper = self._helper(fn[5:])
            if helper is not None:
                return self._inline(helper, [self.eval(a) for a in n.args], n)
        if isinstance(n.func, ast.Attribute):
            recvname = dotted(n.func.value)
            m = n.func.attr
            if recvname in self.lists and m == 'append' and len(n.args) == 1:
                v = self.eval(n.args[0])
                if v is None:
                    raise _PyExc('TypeError-None-appended')
                self.lists[recvname].append(v)
                return None
            if recvname in self.lists and m == 'pop' and not n.args:
                if recvname not in self.written:
                    self.reads_before_write.add(recvname)
                if not self.lists[recvname]:
                    raise _PyExc('IndexError')
                return self.lists[recvname].pop()
            if m == 'join' and isinstance(n.func.value, ast.Constant) and n.func.value.value == '' and len(n.args) == 1:
                an = dotted(n.args[0])
                if an in self.lists:
                    return Joined(self.lists[an])
            if m == 'get' and 1 <= len(n.args) <= 2:
                # table.get(key[, default]) on a folded dict constant
                try:
                    base = self.eval(n.func.value)
                except AnalysisError:
                    base = None
                if isinstance(base, dict):
                    idx = self.eval(n.args[0])
                    dflt = self.eval(n.args[1]) if len(n.args) == 2 else None
                    if idx is OTHER or idx is None or idx not in base:
                        return dflt
                    return base[idx]
            if m == 'casefold' and not n.args:
                v = self.eval(n.func.value)
                if v is None:
                    raise _PyExc('AttributeError')
                if v is OTHER:
                    return OTHER
                if isinstance(v, str):
                    return v.casefold()
        if isinstance(n.func, ast.Name) and n.func.id[:1].isupper() and n.func.id.endswith(('Error', 'Exception', 'Warning')):
            return ('<exception-object>', n.func.id)
        raise AnalysisError(f'{self.mod.relpath}:{n.lineno}: call not modelled in evaluated slice: `{ast.unparse(n)[:80]}`')


def mentioned_chars(fn: ast.AST, folder: Folder, extra_tables: Sequence[Any] = ()) -> List[str]:
    """Every single character that appears in a string constant of the function (and in the given folded
    tables).  Together with OTHER and None these classes make every comparison determinate."""
    chars: set = set()
    for node in ast.walk(fn):
        if isinstance(node, ast.Constant) and isinstance(node.value, str):
            # only short constants are character sets; long ones are messages
            if len(node.value) <= 2 or node is getattr(node, '_charset', None):
                chars.update(node.value)
        elif isinstance(node, ast.Compare):
            for c in [node.left] + list(node.comparators):
                if isinstance(c, ast.Constant) and isinstance(c.value, str):
                    chars.update(c.value)
                elif isinstance(c, ast.Name):
                    try:
                        v = folder.global_(c.id)
                    except AnalysisError:
                        continue
                    if isinstance(v, (str, frozenset, set)):
                        for x in v:
                            if isinstance(x, str):
                                chars.update(x)
    for t in extra_tables:
        if isinstance(t, dict):
            for k, v in t.items():
                if isinstance(k, str):
                    chars.update(k)
                if isinstance(v, str):
                    chars.update(v)
        elif isinstance(t, (str, set, frozenset)):
            for x in t:
                chars.update(x)
    return sorted(chars)


def explore(make: Callable[[List[Any], Dict[str, Any], Dict[str, Any]], Machine], body: Sequence[ast.stmt], in_loop: bool,
            alphabet: Sequence[Any], max_inputs: int = 6, limit: int = 200000) -> List[Outcome]:
    """All outcomes of one execution of `body`, branching lazily over the next input character class, over
    option flags when they are first read, and over declared nondeterministic choices."""
    results: List[Outcome] = []
    work: List[Tuple[List[Any], Dict[str, Any], Dict[str, Any]]] = [([], {}, {})]
    runs = 0
    while work:
        inputs, flags, choices = work.pop()
        runs += 1
        if runs > limit:
            raise AnalysisError('evaluator: exploration limit exceeded')
        m = make(inputs, flags, choices)
        out = m.run_body(body, in_loop)
        if out.kind == 'need-input':
            if len(inputs) >= max_inputs:
                raise AnalysisError(f'evaluator: more than {max_inputs} characters read in one iteration')
            if inputs and inputs[-1] is None:
                work.append((inputs + [None], flags, choices))     # EOF is sticky
            else:
                for c in list(alphabet) + [None]:
                    work.append((inputs + [c], flags, choices))
        elif out.kind == 'need-flag':
            for v in (False, True):
                f2 = dict(flags)
                f2[out.value] = v
                work.append((inputs, f2, choices))
        elif out.kind == 'need-choice':
            key, options = out.value
            for o in options:
                c2 = dict(choices)
                c2[key] = o
                work.append((inputs, flags, c2))
        else:
            results.append(out)
    return results
