"""Constant folder: evaluates *constant* module/class-level expressions from the AST.

Only pure table-building expressions are folded (literals, comprehensions over folded constants,
str.join, f-strings with constant parts, re.escape, struct.Struct(fmt), Enum member values,
integer arithmetic).  Anything else raises FoldError; rules turn that into exit 2 when the table
is one they depend on.  No repository code is imported or executed.
"""
from __future__ import annotations

import ast
import operator
import re
import struct
from typing import Any, Callable, Dict, List, Optional

from .model import AnalysisError, Module, Program, base_names, dotted


class FoldError(AnalysisError):
    pass


class EnumMember:
    """A folded Enum member: class name, member name and value."""
    __slots__ = ('cls', 'name', 'value')

    def __init__(self, cls: str, name: str, value: Any) -> None:
        self.cls, self.name, self.value = cls, name, value

    def __repr__(self) -> str:
        return f'{self.cls}.{self.name}'

    def __eq__(self, other: object) -> bool:
        return isinstance(other, EnumMember) and (self.cls, self.name) == (other.cls, other.name)

    def __hash__(self) -> int:
        return hash((self.cls, self.name))


class EnumTable:
    __slots__ = ('cls', 'members')

    def __init__(self, cls: str, members: Dict[str, EnumMember]) -> None:
        self.cls, self.members = cls, members

    def __iter__(self):
        return iter(self.members.values())


class StructFmt:
    __slots__ = ('fmt',)

    def __init__(self, fmt: str) -> None:
        self.fmt = fmt

    def __repr__(self) -> str:
        return f'Struct({self.fmt!r})'


class Regex:
    __slots__ = ('pattern', 'flags')

    def __init__(self, pattern: str, flags: int = 0) -> None:
        self.pattern, self.flags = pattern, flags


_BINOPS: Dict[type, Callable[[Any, Any], Any]] = {
    ast.Add: operator.add, ast.Sub: operator.sub, ast.Mult: operator.mul, ast.FloorDiv: operator.floordiv,
    ast.Mod: operator.mod, ast.BitOr: operator.or_, ast.BitAnd: operator.and_, ast.BitXor: operator.xor,
    ast.LShift: operator.lshift, ast.RShift: operator.rshift, ast.Pow: operator.pow, ast.Div: operator.truediv,
}
_CMPOPS: Dict[type, Callable[[Any, Any], Any]] = {
    ast.Eq: operator.eq, ast.NotEq: operator.ne, ast.Lt: operator.lt, ast.LtE: operator.le,
    ast.Gt: operator.gt, ast.GtE: operator.ge, ast.In: lambda a, b: a in b, ast.NotIn: lambda a, b: a not in b,
    ast.Is: operator.is_, ast.IsNot: operator.is_not,
}

ENUM_BASES = {'Enum', 'IntEnum', 'Flag', 'IntFlag', 'StrEnum'}


class Folder:
    def __init__(self, prog: Program, mod: Module) -> None:
        self.prog = prog
        self.mod = mod
        self._cache: Dict[str, Any] = {}
        self._busy: set = set()

    # -- names -------------------------------------------------------------------------------
    def global_(self, name: str) -> Any:
        if name in self._cache:
            return self._cache[name]
        if name in self._busy:
            raise FoldError(f'{self.mod.relpath}: recursive constant {name}')
        self._busy.add(name)
        try:
            val = self._global(name)
        finally:
            self._busy.discard(name)
        self._cache[name] = val
        return val

    def _has_global(self, name: str) -> bool:
        try:
            self.mod.global_assign(name)
            return True
        except AnalysisError:
            return self.mod.has_class(name)

    def _global(self, name: str) -> Any:
        if self.mod.has_class(name):
            return self.enum_table(name)
        # imported from a sibling module?
        for st in self.mod.tree.body:
            if isinstance(st, ast.ImportFrom) and st.level >= 1 or (isinstance(st, ast.ImportFrom) and (st.module or '').startswith('srctools')):
                for al in st.names:
                    if (al.asname or al.name) == name:
                        modname = (st.module or '').split('.')[-1] if st.module else None
                        if modname and modname in self.prog.module_names():
                            return Folder(self.prog, self.prog.module(modname)).global_(al.name)
        try:
            expr = self.mod.global_assign(name)
        except AnalysisError as exc:
            raise FoldError(str(exc)) from None
        val = self.fold(expr, {})
        # top-level `del NAME[key]` after the definition belongs to the definition (import runs it once, before anything reads the table
        # from a function); other top-level mutations of a folded dict are not modelled
        if isinstance(val, dict):
            for st in self.mod.tree.body:
                if isinstance(st, ast.Delete):
                    for t in st.targets:
                        if isinstance(t, ast.Subscript) and isinstance(t.value, ast.Name) and t.value.id == name:
                            val = dict(val)
                            key = self.fold(t.slice, {})
                            if key not in val:
                                raise FoldError(f'{self.mod.relpath}:{st.lineno}: del {name}[{key!r}]: key not in the folded table')
                            del val[key]
        return val

    def enum_table(self, clsname: str) -> EnumTable:
        c = self.mod.cls(clsname)
        if not (set(base_names(c)) & ENUM_BASES):
            raise FoldError(f'{self.mod.relpath}: class {clsname} is not an Enum, cannot fold it')
        members: Dict[str, EnumMember] = {}
        env: Dict[str, Any] = {}
        auto_n = 0
        for st in c.body:
            tgt = None
            extra: List[str] = []
            if isinstance(st, ast.Assign) and all(isinstance(t, ast.Name) for t in st.targets):
                tgt, val = st.targets[0].id, st.value        # `A = B = v`: the first name is canonical, the others aliases
                extra = [t.id for t in st.targets[1:]]
            elif isinstance(st, ast.AnnAssign) and isinstance(st.target, ast.Name) and st.value is not None:
                if 'ClassVar' in ast.unparse(st.annotation):
                    continue
                tgt, val = st.target.id, st.value
            if tgt is None or tgt.startswith('_'):
                continue
            if isinstance(val, ast.Call) and dotted(val.func) in ('auto', 'enum.auto'):
                auto_n += 1
                v: Any = auto_n
            else:
                try:
                    v = self.fold(val, env)
                except FoldError:
                    v = ('<unfolded>', ast.unparse(val))
                if isinstance(v, int) and not isinstance(v, bool):
                    auto_n = v
            if isinstance(v, EnumMember):   # alias of an existing member
                members[tgt] = v
                env[tgt] = v
                continue
            # aliases by equal value map to the first member (Enum semantics)
            first = next((m for m in members.values() if m.value == v and type(m.value) is type(v)), None)
            m = first if first is not None else EnumMember(clsname, tgt, v)
            members[tgt] = m
            env[tgt] = m
            for al in extra:
                members[al] = m
                env[al] = m
        return EnumTable(clsname, members)

    # -- expressions -------------------------------------------------------------------------
    def fold(self, node: ast.AST, env: Optional[Dict[str, Any]] = None) -> Any:
        env = {} if env is None else env
        try:
            return self._f(node, env)
        except FoldError:
            raise
        except AnalysisError:
            raise
        except Exception as exc:  # noqa: BLE001
            raise FoldError(f'{self.mod.relpath}:{getattr(node, "lineno", 0)}: cannot fold `{ast.unparse(node)[:120]}`: {exc!r}') from None

    def _f(self, n: ast.AST, env: Dict[str, Any]) -> Any:
        if isinstance(n, ast.Constant):
            return n.value
        if isinstance(n, ast.Name):
            if n.id in env:
                return env[n.id]
            if n.id in ('True', 'False', 'None'):
                return {'True': True, 'False': False, 'None': None}[n.id]
            if n.id in ('len', 'str', 'int', 'ord', 'chr', 'abs', 'min', 'max', 'repr', 'bool', 'float') and not self._has_global(n.id):
                return {'len': len, 'str': str, 'int': int, 'ord': ord, 'chr': chr, 'abs': abs, 'min': min, 'max': max, 'repr': repr, 'bool': bool, 'float': float}[n.id]   # e.g. sorted(x, key=len)
            return self.global_(n.id)
        if isinstance(n, (ast.Tuple, ast.List, ast.Set)):
            out: List[Any] = []
            for e in n.elts:
                if isinstance(e, ast.Starred):
                    out.extend(self._f(e.value, env))
                else:
                    out.append(self._f(e, env))
            return tuple(out) if isinstance(n, ast.Tuple) else (out if isinstance(n, ast.List) else set(out))
        if isinstance(n, ast.Dict):
            d: Dict[Any, Any] = {}
            for k, v in zip(n.keys, n.values):
                if k is None:
                    d.update(self._f(v, env))
                else:
                    d[self._f(k, env)] = self._f(v, env)
            return d
        if isinstance(n, ast.BinOp):
            op = _BINOPS.get(type(n.op))
            if op is None:
                raise FoldError(f'unsupported operator in `{ast.unparse(n)}`')
            return op(self._unwrap(self._f(n.left, env)), self._unwrap(self._f(n.right, env)))
        if isinstance(n, ast.UnaryOp):
            v = self._f(n.operand, env)
            if isinstance(n.op, ast.USub):
                return -v
            if isinstance(n.op, ast.Not):
                return not v
            if isinstance(n.op, ast.Invert):
                return ~v
            return +v
        if isinstance(n, ast.BoolOp):
            vals = [self._f(v, env) for v in n.values]
            if isinstance(n.op, ast.And):
                r = True
                for v in vals:
                    r = v
                    if not v:
                        break
                return r
            r = False
            for v in vals:
                r = v
                if v:
                    break
            return r
        if isinstance(n, ast.Compare):
            left = self._f(n.left, env)
            for op, c in zip(n.ops, n.comparators):
                right = self._f(c, env)
                if isinstance(op, (ast.In, ast.NotIn)) and isinstance(left, EnumMember) and isinstance(left.value, int) \
                        and (isinstance(right, int) or (isinstance(right, EnumMember) and isinstance(right.value, int))):
                    # Flag containment: `Flag.A in combination` (combinations fold to their int value)
                    rv = right if isinstance(right, int) else right.value
                    inside = (left.value & rv) == left.value
                    if inside != isinstance(op, ast.In):
                        return False
                    left = right
                    continue
                if not _CMPOPS[type(op)](left, right):
                    return False
                left = right
            return True
        if isinstance(n, ast.IfExp):
            return self._f(n.body, env) if self._f(n.test, env) else self._f(n.orelse, env)
        if isinstance(n, ast.JoinedStr):
            parts = []
            for v in n.values:
                if isinstance(v, ast.Constant):
                    parts.append(str(v.value))
                elif isinstance(v, ast.FormattedValue):
                    val = self._f(v.value, env)
                    spec = self._f(v.format_spec, env) if v.format_spec is not None else ''
                    if v.conversion == ord('r'):
                        val = repr(val)
                    parts.append(format(val, spec))
            return ''.join(parts)
        if isinstance(n, ast.Subscript):
            base = self._f(n.value, env)
            if isinstance(n.slice, ast.Slice):
                lo = self._f(n.slice.lower, env) if n.slice.lower else None
                hi = self._f(n.slice.upper, env) if n.slice.upper else None
                st = self._f(n.slice.step, env) if n.slice.step else None
                return base[lo:hi:st]
            idx = self._f(n.slice, env)
            if isinstance(base, EnumTable):
                return base.members[idx]
            return base[idx]
        if isinstance(n, ast.Attribute):
            base = self._f(n.value, env) if not self._is_module_ref(n.value) else None
            if isinstance(base, EnumTable):
                if n.attr in base.members:
                    return base.members[n.attr]
                raise FoldError(f'{base.cls} has no member {n.attr}')
            if isinstance(base, EnumMember) and n.attr in ('value', 'name'):
                return getattr(base, n.attr)
            if isinstance(base, StructFmt) and n.attr == 'size':
                return struct.calcsize(base.fmt)
            if isinstance(base, StructFmt) and n.attr == 'format':
                return base.fmt
            raise FoldError(f'cannot fold attribute `{ast.unparse(n)}`')
        if isinstance(n, (ast.ListComp, ast.SetComp, ast.GeneratorExp, ast.DictComp)):
            return self._comp(n, env)
        if isinstance(n, ast.Call):
            return self._call(n, env)
        if isinstance(n, ast.Starred):
            return self._f(n.value, env)
        raise FoldError(f'cannot fold `{ast.unparse(n)[:100]}` ({type(n).__name__})')

    @staticmethod
    def _unwrap(v: Any) -> Any:
        if isinstance(v, EnumMember) and isinstance(v.value, int):
            return v.value
        return v

    def _is_module_ref(self, n: ast.AST) -> bool:
        return isinstance(n, ast.Name) and n.id in ('re', 'struct', 'math', 'os', 'sys', 'string')

    def _comp(self, n: Any, env: Dict[str, Any]) -> Any:
        results: List[Any] = []

        def rec(i: int, env2: Dict[str, Any]) -> None:
            if i == len(n.generators):
                if isinstance(n, ast.DictComp):
                    results.append((self._f(n.key, env2), self._f(n.value, env2)))
                else:
                    results.append(self._f(n.elt, env2))
                return
            g = n.generators[i]
            it = self._f(g.iter, env2)
            if isinstance(it, EnumTable):
                # iteration yields distinct members (no aliases)
                seen: List[EnumMember] = []
                for m in it.members.values():
                    if m not in seen:
                        seen.append(m)
                it = seen
            for item in it:
                env3 = dict(env2)
                self._bind(g.target, item, env3)
                if all(self._f(c, env3) for c in g.ifs):
                    rec(i + 1, env3)
        rec(0, env)
        if isinstance(n, ast.DictComp):
            return dict(results)
        if isinstance(n, ast.SetComp):
            return set(results)
        return results

    def _bind(self, tgt: ast.AST, val: Any, env: Dict[str, Any]) -> None:
        if isinstance(tgt, ast.Name):
            env[tgt.id] = val
        elif isinstance(tgt, (ast.Tuple, ast.List)):
            vals = list(val)
            if len(vals) != len(tgt.elts):
                raise FoldError('unpack length mismatch')
            for t, v in zip(tgt.elts, vals):
                self._bind(t, v, env)
        else:
            raise FoldError(f'cannot bind {ast.unparse(tgt)}')

    def _call(self, n: ast.Call, env: Dict[str, Any]) -> Any:
        fn = dotted(n.func)
        args = [self._f(a, env) for a in n.args if not isinstance(a, ast.Starred)]
        if any(isinstance(a, ast.Starred) for a in n.args):
            args = []
            for a in n.args:
                if isinstance(a, ast.Starred):
                    args.extend(self._f(a.value, env))
                else:
                    args.append(self._f(a, env))
        kwargs = {k.arg: self._f(k.value, env) for k in n.keywords if k.arg}
        simple: Dict[str, Callable[..., Any]] = {
            'frozenset': frozenset, 'set': set, 'list': list, 'tuple': tuple, 'dict': dict, 'len': len,
            'range': range, 'enumerate': lambda *a, **k: list(enumerate(*a, **k)), 'str': str, 'int': int,
            'sorted': sorted, 'zip': lambda *a: list(zip(*a)), 'min': min, 'max': max, 'ord': ord, 'chr': chr,
            'bytes': bytes, 'float': float, 'bool': bool, 'sum': sum, 'reversed': lambda a: list(reversed(a)),
            'struct.calcsize': struct.calcsize, 're.escape': re.escape, 'abs': abs,
        }
        if fn in simple:
            a2 = [list(a) if isinstance(a, EnumTable) else a for a in args]
            return simple[fn](*a2, **kwargs)
        if fn in ('struct.Struct', 'Struct'):
            return StructFmt(args[0])
        if fn in ('re.compile',):
            return Regex(args[0], args[1] if len(args) > 1 else kwargs.get('flags', 0))
        if fn in ('Final', 'MappingProxyType', 'types.MappingProxyType'):
            return args[0]
        if isinstance(n.func, ast.Attribute):
            recv = self._f(n.func.value, env) if not self._is_module_ref(n.func.value) else None
            m = n.func.attr
            if isinstance(recv, str) and m in ('join', 'format', 'casefold', 'lower', 'upper', 'encode', 'split',
                                               'replace', 'strip', 'rstrip', 'lstrip', 'startswith', 'endswith',
                                               'ljust', 'rjust', 'zfill'):
                if m == 'join':
                    return recv.join(list(args[0]))
                return getattr(recv, m)(*args, **kwargs)
            if isinstance(recv, bytes) and m in ('join', 'decode'):
                return getattr(recv, m)(*args, **kwargs)
            if isinstance(recv, dict) and m in ('items', 'keys', 'values', 'get', 'copy'):
                r = getattr(recv, m)(*args)
                return list(r) if m in ('items', 'keys', 'values') else r
            if isinstance(recv, (set, frozenset)) and m in ('union', 'difference', 'intersection', 'copy'):
                return getattr(recv, m)(*args)
            if isinstance(recv, (list, tuple)) and m in ('index', 'count', 'copy'):
                return getattr(recv, m)(*args)
            if isinstance(recv, EnumTable) and not args and not kwargs:
                pass
        if isinstance(n.func, ast.Name) and self.mod.has_class(n.func.id):
            tbl = self.enum_table(n.func.id)
            if len(args) == 1:
                for mem in tbl.members.values():
                    if mem.value == args[0]:
                        return mem
                raise FoldError(f'{n.func.id}({args[0]!r}) is not a member')
        raise FoldError(f'cannot fold call `{ast.unparse(n)[:100]}`')


def fold_global(prog: Program, modname: str, name: str) -> Any:
    return Folder(prog, prog.module(modname)).global_(name)
