"""Polynomial abstraction of branch-light float code (for C04).

Abstracts straight-line arithmetic into polynomials over Q in symbols (matrix entries, vector components,
cos/sin of named angles).  `normal_form` rewrites with user supplied relations of the form  sym**2 -> poly
(e.g. sin**2 -> 1 - cos**2), which is a normal form for the quotient ring because each relation's leading
term is a pure square of a distinct symbol.  Branches are handled by path enumeration over the (tiny, acyclic)
functions with a rule-supplied policy; this is abstract interpretation in a polynomial domain - no solver.
"""
from __future__ import annotations

import ast
from fractions import Fraction
from typing import Any, Callable, Dict, Iterable, List, Optional, Sequence, Tuple, Union

from .model import AnalysisError, dotted

Mono = Tuple[Tuple[str, int], ...]


class Poly:
    __slots__ = ('t',)

    def __init__(self, terms: Optional[Dict[Mono, Fraction]] = None) -> None:
        self.t: Dict[Mono, Fraction] = {m: c for m, c in (terms or {}).items() if c != 0}

    @staticmethod
    def const(c: Union[int, float, Fraction]) -> 'Poly':
        if isinstance(c, float):
            if c != int(c):
                f = Fraction(c).limit_denominator(10**12)
            else:
                f = Fraction(int(c))
        else:
            f = Fraction(c)
        return Poly({(): f})

    @staticmethod
    def sym(name: str) -> 'Poly':
        return Poly({((name, 1),): Fraction(1)})

    def __add__(self, o: 'Poly') -> 'Poly':
        r = dict(self.t)
        for m, c in o.t.items():
            r[m] = r.get(m, Fraction(0)) + c
        return Poly(r)

    def __neg__(self) -> 'Poly':
        return Poly({m: -c for m, c in self.t.items()})

    def __sub__(self, o: 'Poly') -> 'Poly':
        return self + (-o)

    def __mul__(self, o: 'Poly') -> 'Poly':
        r: Dict[Mono, Fraction] = {}
        for m1, c1 in self.t.items():
            for m2, c2 in o.t.items():
                d: Dict[str, int] = dict(m1)
                for s, e in m2:
                    d[s] = d.get(s, 0) + e
                m = tuple(sorted(d.items()))
                r[m] = r.get(m, Fraction(0)) + c1 * c2
        return Poly(r)

    def __pow__(self, n: int) -> 'Poly':
        r = Poly.const(1)
        for _ in range(n):
            r = r * self
        return r

    def scale(self, f: Fraction) -> 'Poly':
        return Poly({m: c * f for m, c in self.t.items()})

    def is_zero(self) -> bool:
        return not self.t

    def is_const(self) -> Optional[Fraction]:
        if not self.t:
            return Fraction(0)
        if list(self.t) == [()]:
            return self.t[()]
        return None

    def symbols(self) -> set:
        return {s for m in self.t for s, _ in m}

    def __eq__(self, o: object) -> bool:
        return isinstance(o, Poly) and self.t == o.t

    def __hash__(self) -> int:
        return hash(tuple(sorted(self.t.items())))

    def subst(self, mapping: Dict[str, 'Poly']) -> 'Poly':
        out = Poly()
        for m, c in self.t.items():
            term = Poly.const(c)
            for s, e in m:
                base = mapping.get(s)
                term = term * ((base if base is not None else Poly.sym(s)) ** e)
            out = out + term
        return out

    def __repr__(self) -> str:
        if not self.t:
            return '0'
        parts = []
        for m, c in sorted(self.t.items()):
            mono = '*'.join(s if e == 1 else f'{s}^{e}' for s, e in m)
            if not mono:
                parts.append(str(c))
            elif c == 1:
                parts.append(mono)
            elif c == -1:
                parts.append('-' + mono)
            else:
                parts.append(f'{c}*{mono}')
        return ' + '.join(parts).replace('+ -', '- ')


def normal_form(p: Poly, relations: Dict[str, Poly]) -> Poly:
    """Rewrite sym**2 -> relations[sym] until no monomial contains sym with exponent >= 2."""
    for _ in range(64):
        changed = False
        out = Poly()
        for m, c in p.t.items():
            hit = next(((s, e) for s, e in m if s in relations and e >= 2), None)
            if hit is None:
                out = out + Poly({m: c})
                continue
            changed = True
            s, e = hit
            rest = tuple((a, b) for a, b in m if a != s)
            low = ((s, e - 2),) if e - 2 > 0 else ()
            base = Poly({tuple(sorted(rest + low)): c})
            out = out + base * relations[s]
        p = out
        if not changed:
            return p
    raise AnalysisError('normal_form did not terminate')


class Opaque:
    """Result of an uninterpreted call (atan2, sqrt of a non-square, ...)."""

    def __init__(self, fn: str, args: Sequence[Any]) -> None:
        self.fn, self.args = fn, list(args)
        self.mods = 0

    def __repr__(self) -> str:
        return f'{self.fn}({", ".join(map(repr, self.args))})' + (f' %%x{self.mods}' if self.mods else '')


class PathResult:
    def __init__(self, env: Dict[str, Any], ret: Any, guards: List[Tuple[str, bool]]) -> None:
        self.env, self.ret, self.guards = env, ret, guards


class PolyInterp:
    """Interprets a function body in the polynomial domain.

    loc(node) keys: Names -> 'x', attribute chains -> 'self._aa', constant subscripts -> 'm[0][1]'.
    Unknown locations read as fresh symbols named by their key (after `rename`).
    """

    def __init__(self, angle_role: Callable[[str], Optional[str]], rename: Optional[Callable[[str], str]] = None,
                 branch: Optional[Callable[[ast.AST], List[bool]]] = None, filename: str = '?',
                 call_hook: Optional[Callable[[ast.Call, List[Any]], Any]] = None) -> None:
        self.angle_role = angle_role
        self.rename = rename or (lambda s: s)
        self.branch = branch or (lambda test: [True, False])
        self.filename = filename
        self.call_hook = call_hook
        self.results: List[PathResult] = []

    # -- driving ---------------------------------------------------------------------------------
    def run(self, body: Sequence[ast.stmt], env: Optional[Dict[str, Any]] = None) -> List[PathResult]:
        self.results = []
        self._block(list(body), dict(env or {}), [], top=True)
        return self.results

    def _block(self, stmts: List[ast.stmt], env: Dict[str, Any], guards: List[Tuple[str, bool]], top: bool = False) -> None:
        """Executes stmts; on branching recurses with the remaining statements (continuation passing)."""
        i = 0
        while i < len(stmts):
            st = stmts[i]
            rest = stmts[i + 1:]
            if isinstance(st, ast.If):
                for choice in self.branch(st.test):
                    body = st.body if choice else st.orelse
                    self._block(list(body) + rest, dict(env), guards + [(ast.unparse(st.test), choice)])
                return
            if isinstance(st, ast.For):
                it = st.iter
                if isinstance(it, ast.Call) and dotted(it.func) == 'range' and len(it.args) == 1 and isinstance(it.args[0], ast.Constant) \
                        and isinstance(st.target, ast.Name):
                    unrolled: List[ast.stmt] = []
                    for k in range(it.args[0].value):
                        unrolled.append(ast.Assign(targets=[ast.Name(id=st.target.id, ctx=ast.Store())], value=ast.Constant(value=k), lineno=st.lineno))
                        unrolled.extend(st.body)
                    self._block(unrolled + rest, env, guards)
                    return
                raise AnalysisError(f'{self.filename}:{st.lineno}: only `for i in range(<const>)` loops are modelled')
            if isinstance(st, ast.Return):
                self.results.append(PathResult(env, self.ev(st.value, env) if st.value is not None else None, guards))
                return
            if isinstance(st, ast.Raise):
                return
            self._stmt(st, env)
            i += 1
        self.results.append(PathResult(env, None, guards))

    def _stmt(self, st: ast.stmt, env: Dict[str, Any]) -> None:
        if isinstance(st, ast.Expr):
            if isinstance(st.value, ast.Constant):
                return
            self.ev(st.value, env)
            return
        if isinstance(st, ast.Pass):
            return
        if isinstance(st, ast.Assign):
            val = self.ev(st.value, env)
            for t in st.targets:
                self._assign(t, val, env)
            return
        if isinstance(st, ast.AnnAssign):
            if st.value is not None:
                self._assign(st.target, self.ev(st.value, env), env)
            return
        if isinstance(st, ast.AugAssign):
            cur = self.ev(st.target, env)
            val = self.ev(st.value, env)
            self._assign(st.target, self._binop(st.op, cur, val, st), env)
            return
        raise AnalysisError(f'{self.filename}:{st.lineno}: statement not modelled in polynomial slice: `{ast.unparse(st)[:80]}`')

    def _assign(self, t: ast.AST, val: Any, env: Dict[str, Any]) -> None:
        if isinstance(t, (ast.Tuple, ast.List)):
            if not isinstance(val, (tuple, list)) or len(val) != len(t.elts):
                raise AnalysisError(f'{self.filename}:{getattr(t, "lineno", 0)}: tuple assignment of non-tuple / wrong arity')
            for e, v in zip(t.elts, val):
                self._assign(e, v, env)
            return
        env[self.loc(t, env)] = val

    # -- locations ---------------------------------------------------------------------------------
    def loc(self, n: ast.AST, env: Dict[str, Any]) -> str:
        if isinstance(n, ast.Name):
            return n.id
        if isinstance(n, ast.Attribute):
            return self.loc(n.value, env) + '.' + n.attr
        if isinstance(n, ast.Subscript):
            idx = self.ev(n.slice, env)
            c = idx.is_const() if isinstance(idx, Poly) else None
            if c is None or c.denominator != 1:
                raise AnalysisError(f'{self.filename}:{n.lineno}: non-constant subscript `{ast.unparse(n)}`')
            return f'{self.loc(n.value, env)}[{int(c)}]'
        raise AnalysisError(f'{self.filename}:{getattr(n, "lineno", 0)}: unsupported location `{ast.unparse(n)}`')

    # -- expressions -------------------------------------------------------------------------------
    def ev(self, n: ast.AST, env: Dict[str, Any]) -> Any:
        if isinstance(n, ast.Constant):
            if isinstance(n.value, (int, float)) and not isinstance(n.value, bool):
                return Poly.const(n.value)
            return n.value
        if isinstance(n, (ast.Name, ast.Attribute, ast.Subscript)):
            key = self.loc(n, env)
            if key in env:
                return env[key]
            return Poly.sym(self.rename(key))
        if isinstance(n, ast.Tuple):
            return tuple(self.ev(e, env) for e in n.elts)
        if isinstance(n, ast.UnaryOp):
            v = self.ev(n.operand, env)
            if isinstance(n.op, ast.USub):
                if isinstance(v, Poly):
                    return -v
                return Opaque('neg', [v])
            if isinstance(n.op, ast.UAdd):
                return v
        if isinstance(n, ast.BinOp):
            return self._binop(n.op, self.ev(n.left, env), self.ev(n.right, env), n)
        if isinstance(n, ast.Call):
            return self._call(n, env)
        raise AnalysisError(f'{self.filename}:{getattr(n, "lineno", 0)}: expression not modelled in polynomial slice: `{ast.unparse(n)[:80]}`')

    def _binop(self, op: ast.operator, l: Any, r: Any, n: ast.AST) -> Any:
        if isinstance(op, ast.Mod):
            if isinstance(l, Opaque):
                l.mods += 1
                return l
            return Opaque('mod', [l, r])
        if isinstance(l, Poly) and isinstance(r, Poly):
            if isinstance(op, ast.Add):
                return l + r
            if isinstance(op, ast.Sub):
                return l - r
            if isinstance(op, ast.Mult):
                return l * r
            if isinstance(op, ast.Pow):
                c = r.is_const()
                if c is not None and c.denominator == 1 and 0 <= c <= 8:
                    return l ** int(c)
            if isinstance(op, ast.Div):
                c = r.is_const()
                if c is not None and c != 0:
                    return l.scale(1 / c)
        return Opaque(type(op).__name__, [l, r])

    def _call(self, n: ast.Call, env: Dict[str, Any]) -> Any:
        fn = (dotted(n.func) or '').split('.')[-1]
        if self.call_hook is not None:
            hooked = self.call_hook(n, [])
            if hooked is not None:
                return hooked
        args = [self.ev(a, env) for a in n.args]
        # a module-level one-expression helper (`def _atan2_deg(y, x): return degrees(atan2(y, x)) % 360`) is evaluated on the argument values
        helpers = getattr(self, 'helpers', None) or {}
        if isinstance(n.func, ast.Name) and n.func.id in helpers and not n.keywords:
            hf = helpers[n.func.id]
            hb = [b for b in hf.body if not (isinstance(b, ast.Expr) and isinstance(b.value, ast.Constant))]
            hp = [a.arg for a in hf.args.args]
            if len(hb) == 1 and isinstance(hb[0], ast.Return) and hb[0].value is not None and len(hp) == len(args):
                return self.ev(hb[0].value, dict(zip(hp, args)))
        if self.call_hook is not None and getattr(self.call_hook, 'wants_args', False):
            hooked = self.call_hook(n, args)       # second chance, with the evaluated arguments
            if hooked is not None:
                return hooked
        if fn in ('radians', 'deg_2_rad'):
            src = ast.unparse(n.args[0])
            role = self.angle_role(src)
            if role is None and isinstance(args[0], Poly):
                # a local that merely carries an angle (`deg_pitch = pitch.pitch`): the role of the single symbol it holds
                syms = list(args[0].t.items())
                if len(syms) == 1 and len(syms[0][0]) == 1 and syms[0][0][0][1] == 1 and syms[0][1] == 1:
                    role = self.angle_role(syms[0][0][0][0])
            if role is None:
                raise AnalysisError(f'{self.filename}:{n.lineno}: angle source `{src}` has no role mapping')
            return Poly.sym('ang:' + role)
        if fn in ('cos', 'sin'):
            a = args[0]
            if isinstance(a, Poly):
                syms = list(a.t.items())
                if len(syms) == 1 and len(syms[0][0]) == 1 and syms[0][0][0][1] == 1 and syms[0][0][0][0].startswith('ang:') and abs(syms[0][1]) == 1:
                    role = syms[0][0][0][0][4:]
                    sign = syms[0][1]
                    base = Poly.sym(('c' if fn == 'cos' else 's') + role)
                    if fn == 'sin' and sign == -1:
                        return -base
                    return base
            raise AnalysisError(f'{self.filename}:{n.lineno}: {fn}() of something that is not +/- a named angle: `{ast.unparse(n)}`')
        if fn in ('degrees', 'rad_2_deg', 'float'):
            return args[0]
        if fn == 'norm_ang':
            a = args[0]
            if isinstance(a, Opaque):
                a.mods += 2
            return a
        return Opaque(fn, args)
